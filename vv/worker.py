"""Executes one shard of one part of one property in ONE execution mode
(mode is fixed by the environment the runner gave this process)."""
import argparse
import faulthandler
import importlib
import json
import os
import sys
import traceback
import warnings


def main():
    ap = argparse.ArgumentParser()
    ap.add_argument("--prop", required=True)
    ap.add_argument("--part", required=True)
    ap.add_argument("--mode", required=True)
    ap.add_argument("--tier", default="quick")
    ap.add_argument("--seed", type=int, default=0)
    ap.add_argument("--shard", type=int, default=0)
    ap.add_argument("--nshards", type=int, default=1)
    ap.add_argument("--out", required=True)
    ap.add_argument("--args", default="{}")
    ap.add_argument("--replay", default=None)
    a = ap.parse_args()

    faulthandler.enable(all_threads=False)
    warnings.filterwarnings("ignore")
    mode_env = {"PY": ("NUMBA_DISABLE_JIT", "1"), "BC": ("NUMBA_BOUNDSCHECK", "1")}
    if a.mode in mode_env:
        k, v = mode_env[a.mode]
        assert os.environ.get(k) == v, "mode %s needs %s=%s in the environment" % (a.mode, k, v)
    else:
        assert not os.environ.get("NUMBA_DISABLE_JIT") and not os.environ.get("NUMBA_BOUNDSCHECK")

    from vv import core

    out = open(a.out, "a")
    ctx = core.Ctx(a.prop, a.part, a.mode, a.tier, a.seed, a.shard, a.nshards, out, json.loads(a.args))
    mod = importlib.import_module("vv.props." + a.prop)
    try:
        V = core.import_repo()
        ctx._w({"t": "hello", "file": V.__file__, "pid": os.getpid()})
        if a.replay:
            rp = json.load(open(a.replay))
            ctx.replaying = True
            mod.CHECKS[a.part](ctx, rp["case"])
            print("replay finished: part=%s mode=%s" % (a.part, a.mode))
        else:
            mod.PARTS[a.part](ctx)
        ctx.done()
    except BaseException:
        ctx.flush_counts()
        ctx._w({"t": "crash", "tb": traceback.format_exc()[-4000:]})
        out.close()
        raise
    out.close()


if __name__ == "__main__":
    main()
