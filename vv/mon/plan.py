"""Solver-free optimality certificate for a transport plan (C07).

A feasible plan P is optimal for its own marginals iff its residual graph
(arc i->j of cost C_ij always; arc j->i of cost -C_ij where P_ij > 0) has no
negative cycle.  Bellman-Ford finds potentials (the dual certificate) or a
negative cycle, which is cancelled to build an explicitly cheaper feasible plan.
"""
import numpy as np


def _bellman_ford(P, C, ptol, tol):
    n, m = C.shape
    u = np.zeros(n)
    v = np.zeros(m)
    pred_col = np.full(m, -1)
    pred_row = np.full(n, -1)
    back = np.where(P > ptol, -C, np.inf)  # arc j->i usable where mass can be removed
    last = None
    for it in range(n + m + 2):
        changed = False
        cand = u[:, None] + C
        bi = np.argmin(cand, axis=0)
        nv = cand[bi, np.arange(m)]
        upd = nv < v - tol
        if upd.any():
            v = np.where(upd, nv, v)
            pred_col = np.where(upd, bi, pred_col)
            changed = True
            last = ("c", int(np.argmax(upd)))
        cand2 = v[None, :] + back
        bj = np.argmin(cand2, axis=1)
        nu = cand2[np.arange(n), bj]
        upd2 = nu < u - tol
        if upd2.any():
            u = np.where(upd2, nu, u)
            pred_row = np.where(upd2, bj, pred_row)
            changed = True
            last = ("r", int(np.argmax(upd2)))
        if not changed:
            return True, u, v, None
    # negative cycle: walk predecessors
    kind, x = last
    for _ in range(2 * (n + m) + 2):
        if kind == "c":
            kind, x = "r", int(pred_col[x])
        else:
            kind, x = "c", int(pred_row[x])
        if x < 0:
            return False, u, v, None
    start = (kind, x)
    cyc = [start]
    while True:
        kind, x = cyc[-1]
        nxt = ("r", int(pred_col[x])) if kind == "c" else ("c", int(pred_row[x]))
        if nxt[1] < 0:
            return False, u, v, None
        if nxt == start:
            break
        if nxt in cyc or len(cyc) > 2 * (n + m) + 2:
            # landed in a smaller cycle: restart from there
            k = cyc.index(nxt) if nxt in cyc else 0
            cyc = cyc[k:]
            start = cyc[0]
            break
        cyc.append(nxt)
    return False, u, v, cyc


def certify(p, q, C, P, max_cancel=50):
    """Returns dict(feasible=..., neg=..., row_err=..., col_err=..., cost=..., saving=..., optimal=..., potentials=...)."""
    p = np.asarray(p, dtype=float)
    q = np.asarray(q, dtype=float)
    C = np.ascontiguousarray(np.asarray(C, dtype=float))
    P = np.array(P, dtype=float)
    out = {"shape_ok": P.shape == C.shape == (p.shape[0], q.shape[0])}
    if not out["shape_ok"]:
        return out
    out["finite"] = bool(np.all(np.isfinite(P)))
    if not out["finite"]:
        return out
    out["neg"] = float(P.min()) if P.size else 0.0
    out["row_err"] = float(np.abs(P.sum(1) - p).max())
    out["col_err"] = float(np.abs(P.sum(0) - q).max())
    cost0 = float((P * C).sum())
    out["cost"] = cost0
    scale = 1.0 + float(np.abs(C).max())
    tol = 1e-13 * scale
    ptol = 1e-13
    saving = 0.0
    Q = P.copy()
    Q[Q < 0] = 0.0
    cancels = 0
    certified = False
    status = "?"
    for _ in range(max_cancel):
        ok, u, v, cyc = _bellman_ford(Q, C, ptol, tol)
        if ok:
            certified = True
            status = "no-negative-cycle"
            out["potentials"] = {"u": u.tolist()[:8], "v": v.tolist()[:8]}
            # dual feasibility actually reached (v_j - u_i <= C_ij + slack)
            out["dual_slack_violation"] = float(np.max((v[None, :] - u[:, None]) - C))
            break
        if cyc is None:
            status = "cycle-extraction-failed"
            break
        # cycle as alternating nodes in *predecessor* order: x <- pred(x).  Recover arcs.
        # Each consecutive pair (a, b) in cyc means b is the predecessor of a, i.e. arc b -> a.
        arcs = []
        for a, b in zip(cyc, cyc[1:] + cyc[:1]):
            arcs.append((b, a))
        ccost, theta = 0.0, np.inf
        for (k1, x1), (k2, x2) in arcs:
            if k1 == "r" and k2 == "c":  # forward i->j
                ccost += C[x1, x2]
            elif k1 == "c" and k2 == "r":  # backward j->i uses P[i,j]
                ccost -= C[x2, x1]
                theta = min(theta, Q[x2, x1])
            else:
                ccost = np.nan
        if not np.isfinite(ccost) or not np.isfinite(theta) or ccost >= -tol or theta <= 0:
            status = "cycle-not-negative"
            break
        for (k1, x1), (k2, x2) in arcs:
            if k1 == "r":
                Q[x1, x2] += theta
            else:
                Q[x2, x1] -= theta
        saving += -ccost * theta
        cancels += 1
    else:
        status = "cancel-budget-exhausted"
    out["certificate"] = status
    out["cancelled_cycles"] = cancels
    out["saving"] = float(saving)
    out["cheaper_plan_cost"] = float((Q * C).sum())
    out["certified"] = certified
    return out


def selftest():
    rs = np.random.RandomState(1)
    from scipy.optimize import linprog

    for k in range(40):
        n, m = rs.randint(1, 7), rs.randint(1, 7)
        p = rs.dirichlet(np.ones(n))
        q = rs.dirichlet(np.ones(m))
        C = rs.rand(n, m)
        A = np.zeros((n + m, n * m))
        for i in range(n):
            A[i, i * m:(i + 1) * m] = 1
        for j in range(m):
            A[n + j, j::m] = 1
        r = linprog(C.ravel(), A_eq=A, b_eq=np.concatenate([p, q]), bounds=(0, None), method="highs")
        Popt = r.x.reshape(n, m)
        c = certify(p, q, C, Popt)
        assert c["saving"] <= 1e-7 * (1 + c["cost"]), c
        # the independent coupling p q^T is feasible but (almost surely) not optimal for n,m >= 2
        if n >= 2 and m >= 2:
            c2 = certify(p, q, C, np.outer(p, q))
            gap = float((np.outer(p, q) * C).sum() - r.fun)
            if gap > 1e-6:
                assert c2["saving"] > 0.3 * gap, (c2, gap)
                assert c2["cheaper_plan_cost"] <= c2["cost"] + 1e-12
