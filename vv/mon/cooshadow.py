"""CooArray shadow-model monitor (C04, 'invariant at a hook').

Interpreted mode: `coo_append` is rebound in every kernel module to a wrapper that keeps, per
accumulator (identified by id(coo.ind), which survives reallocation), a dict
    key -> [row, col, float64 sum of everything appended]
and, after every append that compacted / merged / grew the buffer (and every N-th append), asserts

    in = held :  aggregate of the live part [0, ind) == shadow   (same key set, same per-key sum)
    row/col consistent with key;  ind <= len(buffer)

It also watches the *caller*: an append into a buffer that the structure has already abandoned
(the caller dropped the returned, reallocated accumulator) is reported.

Compiled mode: only the final state is observable (at the `_build_skip_grams` boundary):
`final_state_ok` checks sortedness / uniqueness / key-consistency of the live part.
"""
import numpy as np


class CooBroken(Exception):
    pass


class Shadow:
    def __init__(self, ctx, every=64):
        self.ctx = ctx
        self.every = every
        self.shadow = {}  # id(ind) -> dict
        self.live = {}  # id(ind) -> id(key array) currently owned by the structure
        self.nappend = 0
        self.problems = []
        self.growths = []
        self.limit = None

    def reset(self):
        self.shadow.clear()
        self.live.clear()
        self.problems = []
        self.growths = []

    def check(self, coo, sh, where):
        self.ctx.count("shadow_invariant_evaluations")
        n = int(coo.ind[0])
        if n > len(coo.key) or n < 0:
            raise CooBroken(("ind-beyond-buffer", where, n, len(coo.key)))
        agg = {}
        rows, cols, vals, keys = coo.row[:n], coo.col[:n], coo.val[:n], coo.key[:n]
        for r, c, v, k in zip(rows.tolist(), cols.tolist(), vals.tolist(), keys.tolist()):
            a = agg.get(k)
            if a is None:
                agg[k] = [r, c, float(v)]
            else:
                if (a[0], a[1]) != (r, c):
                    raise CooBroken(("key-rowcol-mismatch", where, k))
                a[2] += float(v)
        if agg.keys() != sh.keys():
            lost = sorted(set(sh) - set(agg))[:5]
            extra = sorted(set(agg) - set(sh))[:5]
            raise CooBroken(("key-set-differs", where, {"lost": lost, "extra": extra, "ind": n, "buffer": len(coo.key)}))
        for k, (r, c, s) in sh.items():
            a = agg[k]
            if (a[0], a[1]) != (r, c):
                raise CooBroken(("key-rowcol-mismatch", where, k))
            if abs(a[2] - s) > 1e-5 * max(1.0, abs(s)):
                raise CooBroken(("per-key-sum-differs", where, {"key": k, "held": a[2], "appended": s}))

    def wrap_append(self, orig):
        def coo_append(coo, tup):
            sid = id(coo.ind)
            sh = self.shadow.setdefault(sid, {})
            owner = self.live.get(sid)
            if owner is not None and owner != id(coo.key):
                self.problems.append(("append-into-abandoned-buffer", {"buffer_len": len(coo.key)}))
            before = (int(coo.ind[0]), len(coo.key))
            try:
                new = orig(coo, tup)
            except IndexError as e:
                self.problems.append(("append-raises-IndexError", {"ind": before[0], "buffer_len": before[1], "msg": str(e)[:100]}))
                raise
            a = sh.get(int(tup[3]))
            if a is None:
                sh[int(tup[3])] = [int(tup[0]), int(tup[1]), float(tup[2])]
            else:
                a[2] += float(tup[2])
            self.nappend += 1
            self.live[sid] = id(new.key)
            after = (int(new.ind[0]), len(new.key))
            if after[1] != before[1]:
                self.growths.append((before[1], after[1]))
            if after[0] != before[0] + 1 or after[1] != before[1]:
                self.ctx.seen("coo_states", [int(new.depth[0]), int((new.min > 0).sum()), after[1] != before[1]])
                self.ctx.count("coo_compactions")
                if after[1] != before[1]:
                    self.ctx.count("coo_growths")
                self._guard(new, sh, "after-compaction")
            elif self.nappend % self.every == 0:
                self._guard(new, sh, "periodic")
            return new

        return coo_append

    def _guard(self, coo, sh, where):
        try:
            self.check(coo, sh, where)
        except CooBroken as b:
            self.problems.append((b.args[0][0], {"where": where, "info": b.args[0][2:]}))

    def wrap_build(self, f):
        def build(*a, **k):
            # one kernel call = one generation of accumulators; ids may be recycled afterwards
            self.shadow.clear()
            self.live.clear()
            res = f(*a, **k)
            for coo in res:
                sh = self.shadow.get(id(coo.ind))
                if sh is not None:
                    self._guard(coo, sh, "final")
                    self.ctx.seen("coo_final_depth", int(coo.depth[0]))
                elif int(coo.ind[0]) != 0:
                    self.problems.append(("returned-accumulator-never-seen-by-append", {"ind": int(coo.ind[0])}))
            self.shadow.clear()
            self.live.clear()
            return res

        return build


def install(ctx, limit=None, every=64):
    """PY mode: rebind coo_append / kernel entry points in the four kernel modules. Returns the Shadow."""
    import vectorizers.coo_utils as cu
    import vectorizers.token_cooccurrence_vectorizer as tok
    import vectorizers.timed_token_cooccurrence_vectorizer as tim
    import vectorizers.ngram_token_cooccurence_vectorizer as ngr
    import vectorizers.multi_token_cooccurence_vectorizer as mul

    sh = Shadow(ctx, every)
    if limit is not None:
        cu.COO_QUICKSORT_LIMIT = int(limit)
        sh.limit = int(limit)
    wrapped = sh.wrap_append(cu.coo_append)
    for m in (tok, tim, ngr, mul):
        m.coo_append = wrapped
    for m, name in ((tok, "numba_build_skip_grams"), (tim, "numba_build_skip_grams"), (ngr, "numba_build_skip_grams"), (mul, "numba_build_multi_skip_grams")):
        setattr(m, name, sh.wrap_build(getattr(m, name)))
    return sh


def final_state_ok(coo):
    """Compiled mode: invariants of the final CooArray handed back to Python."""
    n = int(coo.ind[0])
    if n < 0 or n > len(coo.key):
        return "ind-beyond-buffer"
    k = np.asarray(coo.key[:n])
    if n > 1 and not np.all(k[1:] > k[:-1]):
        return "final-run-not-sorted-unique"
    return None


# ---------------------------------------------------------------- line counters (sys.monitoring)
MARKERS = {
    # name -> (function, text that identifies the statement)
    "merge:tail-loop-ptr2": ("merge_sum_duplicates", "while ptr2 < coo.ind[0]:"),
    "merge:tail-loop-ptr1": ("merge_sum_duplicates", "while ptr1 < coo.min[i]:"),
    "merge:equal-key-sum": ("merge_sum_duplicates", "result_val[result_ptr] += coo.val[this_ptr]"),
    "merge:new-depth": ("merge_sum_duplicates", "coo.depth[0] += 1"),
    "merge:reuse-level": ("merge_sum_duplicates", "new_depth = False"),
    "merge_all": ("merge_all_sum_duplicates", "merge_sum_duplicates(coo)"),
    "increase_mem": ("coo_increase_mem", "new_min[: temp.shape[0]] = temp"),
    "sum_duplicates:flush-last": ("coo_sum_duplicates", "coo.ind[0] = sum_ind"),
}


def install_line_counters(ctx):
    """PY mode only. Returns a function that reports which markers were reached so far."""
    import inspect
    import sys

    import vectorizers.coo_utils as cu

    if not hasattr(sys, "monitoring"):
        return lambda: {}
    fname = cu.__file__
    lines = {}
    for name, (fn, text) in MARKERS.items():
        try:
            src, start = inspect.getsourcelines(getattr(cu, fn))
        except Exception:
            continue
        for off, l in enumerate(src):
            if text in l:
                lines.setdefault(start + off, []).append(name)
    hit = set()
    mon = sys.monitoring
    tool = 3
    try:
        mon.use_tool_id(tool, "vv-lines")
    except ValueError:
        return lambda: {}

    def on_line(code, lineno):
        if code.co_filename == fname and lineno in lines:
            for nm in lines[lineno]:
                if nm not in hit:
                    hit.add(nm)
                    ctx.seen("coo_lines_reached", nm)
        return mon.DISABLE

    mon.register_callback(tool, mon.events.LINE, on_line)
    for fn in set(f for f, _ in MARKERS.values()):
        f = getattr(cu, fn, None)
        code = getattr(f, "__code__", None)
        if code is not None:
            mon.set_local_events(tool, code, mon.events.LINE)
    return lambda: set(hit)
