"""Deep snapshot / compare of call arguments and constructor-parameter objects (C13),
and the audit-hook tracer for files and directories created during a call."""
import os
import sys
import threading

import numpy as np
import scipy.sparse as sp


def snap(x, depth=0):
    """Structure that changes iff an observable byte / entry / order of x changes."""
    if depth > 6:
        return ("deep", type(x).__name__)
    if sp.issparse(x):
        parts = [("fmt", x.format), ("shape", tuple(x.shape)), ("dtype", str(x.dtype))]
        for a in ("data", "indices", "indptr", "row", "col", "offsets"):
            if hasattr(x, a):
                v = getattr(x, a)
                parts.append((a, np.asarray(v).tobytes(), str(np.asarray(v).dtype)))
        if x.format == "lil":
            parts.append(("rows", tuple(tuple(r) for r in x.rows)))
            parts.append(("ldata", tuple(tuple(r) for r in x.data)))
        for flag in ("has_sorted_indices", "has_canonical_format"):
            if x.format in ("csr", "csc"):
                parts.append((flag, bool(getattr(x, flag))))
        return ("sparse", tuple(parts))
    if isinstance(x, np.ndarray):
        if x.dtype == object:
            return ("objarray", x.shape, tuple(snap(v, depth + 1) for v in x.ravel().tolist()))
        return ("ndarray", x.dtype.str, x.shape, x.tobytes())
    if isinstance(x, dict):
        return ("dict", tuple((repr(k), snap(v, depth + 1)) for k, v in x.items()))
    if isinstance(x, (list, tuple)):
        return (type(x).__name__, tuple(snap(v, depth + 1) for v in x))
    if isinstance(x, (set, frozenset)):
        return ("set", tuple(sorted(repr(v) for v in x)))
    if type(x).__name__ in ("List", "ReflectedList") and hasattr(x, "__iter__"):
        return ("typedlist", tuple(snap(v, depth + 1) for v in x))
    if hasattr(x, "__next__"):
        return ("generator",)
    return ("scalar", repr(x))


def diff(a, b, path="x"):
    """First difference between two snapshots, as a short human-readable path."""
    if a == b:
        return None
    if type(a) != type(b) or not isinstance(a, tuple) or len(a) != len(b) or (a and b and a[0] != b[0] and isinstance(a[0], str)):
        return "%s: %s -> %s" % (path, str(a)[:80], str(b)[:80])
    for i, (u, v) in enumerate(zip(a, b)):
        if u != v:
            if isinstance(u, tuple) and isinstance(v, tuple):
                return diff(u, v, "%s[%d]" % (path, i))
            return "%s[%d]: %s -> %s" % (path, i, str(u)[:60], str(v)[:60])
    return path


# ---------------------------------------------------------------- audit tracer
class FileTracer:
    """sys.addaudithook recorder of filesystem creations / removals under a given root."""

    _installed = None

    def __init__(self, root):
        self.root = os.path.realpath(root)
        self.events = []
        self.lock = threading.Lock()
        self.active = False
        if FileTracer._installed is None:
            FileTracer._installed = []
            sys.addaudithook(FileTracer._hook)
        FileTracer._installed.append(self)

    @staticmethod
    def _hook(ev, args):
        if ev not in ("tempfile.mkdtemp", "tempfile.mkstemp", "os.mkdir", "os.remove", "os.rmdir", "shutil.rmtree", "open", "os.rename"):
            return
        for t in FileTracer._installed or ():
            if not t.active:
                continue
            try:
                path = args[0]
                if isinstance(path, bytes):
                    path = path.decode("utf8", "replace")
                if not isinstance(path, str):
                    continue
                if ev == "open":
                    mode = args[1] if len(args) > 1 else None
                    if not (isinstance(mode, str) and any(ch in mode for ch in "wax+")):
                        continue
                if ev.startswith("tempfile"):
                    path = args[2] if len(args) > 2 and isinstance(args[2], str) else path
                rp = os.path.realpath(path) if isinstance(path, str) else ""
                if rp.startswith(t.root):
                    with t.lock:
                        t.events.append((ev, rp))
            except Exception:
                pass

    def __enter__(self):
        self.events = []
        self.active = True
        return self

    def __exit__(self, *a):
        self.active = False

    def leftovers(self):
        out = []
        for d, dirs, files in os.walk(self.root):
            for n in dirs + files:
                out.append(os.path.relpath(os.path.join(d, n), self.root))
        return sorted(out)
