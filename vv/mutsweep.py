"""Mechanical mutation sweep (maintenance tool, not a registered check).

    python -m vv.mutsweep gen  --out DIR/mutants.json
    python -m vv.mutsweep run  --mutants DIR/mutants.json --per-prop 8 --seed 1 --out DIR/results.jsonl [--suite]

`gen` enumerates first-order mutants (comparison boundary, +/- swap, dropped +-1, 0<->1, and/or, dropped
.copy(), deleted statement, shortened range) of the library source *inside the line ranges the properties
are anchored in* (properties.jsonl `anchors.mechanism[].where`, mapped from the pinned commit to HEAD).
`run` applies a stratified sample one at a time to a scratch git worktree of /repo HEAD (outside /repo and
/verif; /repo is never touched), runs the quick tier of the anchoring property's check against it
(VV_REPO), then - if that did not fire - the checks of the other properties anchored on the same line, and
- if nothing fired and --suite is given - the repository's own test suite, to tell a survivor that the
suite would have rejected from one that "compiles and passes the tests". Survivors of both are the
interesting output: each is either an equivalent mutant or a gap in the workload, to be read by hand.
"""
import argparse
import ast
import difflib
import json
import os
import random
import re
import shutil
import subprocess
import sys
import time

HERE = os.path.dirname(os.path.dirname(os.path.abspath(__file__)))
PY = "/venv/bin/python"
BASE = "f065056"  # pinned snapshot the anchors' line numbers refer to


EXTRA = {"linear_optimal_transport": ["C08", "C02"], "ngram_vectorizer": ["C06", "C02"], "skip_gram": ["C06", "C02"], "mixed_gram": ["C02"],
         "preprocessing": ["C05", "C14"], "_window_kernels": ["C03"], "base_cooccurrence": ["C03", "C02"], "coo_utils": ["C04", "C03"],
         "distances": ["C18"], "info_weight": ["C17", "C02"], "row_desnoise": ["C02"], "tree_token": ["C15"], "_vectorizers": ["C20", "C02"], "kde": ["C20"]}


def sh(cmd, **kw):
    return subprocess.run(cmd, capture_output=True, text=True, **kw)


# ------------------------------------------------------------------ anchors -> line ranges at HEAD
def anchor_ranges():
    out = {}  # file -> list of (lo, hi, prop)  (pinned-commit numbering)
    for line in open(os.path.join(HERE, "properties.jsonl")):
        p = json.loads(line)
        files = p["anchors"]["files"]
        by_base = {os.path.basename(f): f for f in files}

        def resolve(name):
            if name in by_base:
                return by_base[name]
            stem = name.replace("...", "").replace(".py", "")
            c = [f for b, f in by_base.items() if b.startswith(stem)]
            return c[0] if len(c) == 1 else None

        for m in p["anchors"].get("mechanism", []) + p["anchors"].get("state", []):
            last = None
            for fn, a, b in re.findall(r"([\w.]+(?:\.py|\.\.\.))?:(\d+)(?:-(\d+))?", m.get("where", "")):
                if fn:
                    last = resolve(fn)
                if last is None:
                    continue
                lo, hi = int(a), int(b or a)
                if hi - lo > 400:
                    continue
                out.setdefault(last, []).append((lo, hi, p["id"]))
    return out


def line_map(path):
    old = sh(["git", "-C", "/repo", "show", "%s:%s" % (BASE, path)]).stdout.split("\n")
    new = open(os.path.join("/repo", path)).read().split("\n")
    sm = difflib.SequenceMatcher(None, old, new, autojunk=False)
    mp = {}
    for tag, i1, i2, j1, j2 in sm.get_opcodes():
        if tag == "equal":
            for k in range(i2 - i1):
                mp[i1 + k + 1] = j1 + k + 1
        else:
            for k in range(i1, i2):
                mp[k + 1] = min(j1 + (k - i1), max(j2 - 1, j1)) + 1
    return mp, new


# ------------------------------------------------------------------ mutant enumeration
CMP = {ast.Lt: ("<", "<="), ast.LtE: ("<=", "<"), ast.Gt: (">", ">="), ast.GtE: (">=", ">"), ast.Eq: ("==", "!="), ast.NotEq: ("!=", "==")}


class Src:
    def __init__(self, text):
        self.text = text
        self.lines = text.split("\n")
        self.offs = [0]
        for l in self.lines:
            self.offs.append(self.offs[-1] + len(l.encode()) + 1)
        self.b = text.encode()

    def pos(self, lineno, col):
        return self.offs[lineno - 1] + col

    def seg(self, node):
        return self.b[self.pos(node.lineno, node.col_offset): self.pos(node.end_lineno, node.end_col_offset)].decode()

    def replace(self, a, b, new):
        return (self.b[:a] + new.encode() + self.b[b:]).decode()


def enumerate_mutants(path, text, ranges):
    """ranges: list of (lo, hi, props-set) in HEAD numbering."""
    src = Src(text)
    tree = ast.parse(text)
    muts = []

    def props_at(l):
        s = set()
        for lo, hi, pr in ranges:
            if lo <= l <= hi:
                s.add(pr)
        return sorted(s)

    def add(node_line, a, b, new, op, desc):
        pr = props_at(node_line)
        if not pr:
            return
        old = src.b[a:b].decode()
        if old == new:
            return
        muts.append({"file": path, "line": node_line, "op": op, "old": old, "new": new, "a": a, "b": b, "props": pr,
                     "desc": "%s:%d %s: `%s` -> `%s`" % (path, node_line, desc, old.strip()[:60], new.strip()[:60])})

    parents = {}
    for n in ast.walk(tree):
        for c in ast.iter_child_nodes(n):
            parents[c] = n

    for n in ast.walk(tree):
        if isinstance(n, ast.Compare) and len(n.ops) == 1 and type(n.ops[0]) in CMP:
            a = src.pos(n.left.end_lineno, n.left.end_col_offset)
            b = src.pos(n.comparators[0].lineno, n.comparators[0].col_offset)
            mid = src.b[a:b].decode()
            o, r = CMP[type(n.ops[0])]
            if mid.count(o) == 1 and mid.strip(" ()\n\\") == o:
                add(n.lineno, a, b, mid.replace(o, r), "cmp", "comparison boundary")
        elif isinstance(n, ast.BinOp) and isinstance(n.op, (ast.Add, ast.Sub)):
            a = src.pos(n.left.end_lineno, n.left.end_col_offset)
            b = src.pos(n.right.lineno, n.right.col_offset)
            mid = src.b[a:b].decode()
            o = "+" if isinstance(n.op, ast.Add) else "-"
            if mid.strip(" ()\n\\") == o:
                if isinstance(n.right, ast.Constant) and n.right.value == 1:
                    add(n.lineno, a, src.pos(n.right.end_lineno, n.right.end_col_offset), "", "drop1", "dropped %s 1" % o)
                else:
                    add(n.lineno, a, b, mid.replace(o, "-" if o == "+" else "+"), "addsub", "+/- swapped")
        elif isinstance(n, ast.BoolOp) and len(n.values) == 2:
            a = src.pos(n.values[0].end_lineno, n.values[0].end_col_offset)
            b = src.pos(n.values[1].lineno, n.values[1].col_offset)
            mid = src.b[a:b].decode()
            o = "and" if isinstance(n.op, ast.And) else "or"
            if mid.strip(" ()\n\\") == o:
                add(n.lineno, a, b, mid.replace(o, "or" if o == "and" else "and"), "boolop", "and/or swapped")
        elif isinstance(n, ast.Constant) and type(n.value) is int and n.value in (0, 1):
            par = parents.get(n)
            if isinstance(par, (ast.arguments, ast.keyword, ast.Slice)) or (isinstance(par, ast.BinOp) and n.value == 1):
                continue  # defaults / keyword flags / handled by drop1
            if isinstance(par, ast.Subscript) or isinstance(par, (ast.Compare, ast.Assign, ast.Call, ast.Tuple, ast.BinOp, ast.AugAssign)):
                add(n.lineno, src.pos(n.lineno, n.col_offset), src.pos(n.end_lineno, n.end_col_offset), "1" if n.value == 0 else "0", "const", "constant %d flipped" % n.value)
        elif isinstance(n, ast.Call) and isinstance(n.func, ast.Attribute) and n.func.attr == "copy" and not n.args and not n.keywords:
            add(n.lineno, src.pos(n.func.value.end_lineno, n.func.value.end_col_offset), src.pos(n.end_lineno, n.end_col_offset), "", "copy", "dropped .copy()")
        elif isinstance(n, ast.Call) and isinstance(n.func, ast.Name) and n.func.id in ("range", "prange") and n.args:
            last = n.args[-1] if len(n.args) <= 2 else n.args[1]
            a, b = src.pos(last.lineno, last.col_offset), src.pos(last.end_lineno, last.end_col_offset)
            add(n.lineno, a, b, "(%s) - 1" % src.b[a:b].decode(), "range", "loop one iteration short")
        elif isinstance(n, ast.AugAssign) and isinstance(n.op, (ast.Add, ast.Sub)):
            a = src.pos(n.target.end_lineno, n.target.end_col_offset)
            b = src.pos(n.value.lineno, n.value.col_offset)
            mid = src.b[a:b].decode()
            o = "+=" if isinstance(n.op, ast.Add) else "-="
            if mid.strip() == o:
                add(n.lineno, a, b, mid.replace(o, "="), "augassign", "accumulation replaced by assignment")
        if isinstance(n, (ast.Assign, ast.AugAssign, ast.Expr)) and n.lineno == n.end_lineno:
            par = parents.get(n)
            body_ok = par is not None and any(isinstance(getattr(par, f, None), list) and n in getattr(par, f) and len(getattr(par, f)) > 1 for f in ("body", "orelse", "finalbody"))
            if isinstance(n, ast.Expr) and not isinstance(n.value, ast.Call):
                body_ok = False  # docstrings
            if body_ok and not isinstance(par, (ast.Module, ast.ClassDef)):
                add(n.lineno, src.pos(n.lineno, n.col_offset), src.pos(n.end_lineno, n.end_col_offset), "pass", "delstmt", "statement deleted")
    return muts


def cmd_gen(a):
    anc = anchor_ranges()
    allm = []
    for path, rs in sorted(anc.items()):
        mp, new = line_map(path)
        nr = []
        for lo, hi, pr in rs:
            l2, h2 = mp.get(lo), mp.get(hi)
            if l2 is None or h2 is None:
                continue
            nr.append((min(l2, h2), max(l2, h2), pr))
        text = open(os.path.join("/repo", path)).read()
        ms = enumerate_mutants(path, text, nr)
        tb = text.encode()
        ok = []
        for m in ms:
            try:
                import warnings
                with warnings.catch_warnings():
                    warnings.simplefilter("ignore")
                    ast.parse((tb[:m["a"]] + m["new"].encode() + tb[m["b"]:]).decode())
                ok.append(m)
            except SyntaxError:
                pass
        ms = ok
        print("%-60s ranges=%d mutants=%d" % (path, len(nr), len(ms)))
        allm += ms
    for i, m in enumerate(allm):
        m["id"] = i
    os.makedirs(os.path.dirname(os.path.abspath(a.out)), exist_ok=True)
    json.dump({"repo_head": sh(["git", "-C", "/repo", "rev-parse", "--short", "HEAD"]).stdout.strip(), "mutants": allm}, open(a.out, "w"))
    byp = {}
    for m in allm:
        for p in m["props"]:
            byp[p] = byp.get(p, 0) + 1
    print(len(allm), "mutants;", json.dumps(byp, sort_keys=True))


# ------------------------------------------------------------------ running
def run_check(prop, wt, base, seed="0"):
    env = dict(os.environ, VV_REPO=wt, VERIF_SEED=seed, VV_EVIDENCE_DIR=os.path.join(base, "evidence"))
    t0 = time.time()
    try:
        p = subprocess.run([os.path.join(HERE, "check"), prop, "quick"], env=env, cwd=HERE, capture_output=True, text=True, timeout=900, start_new_session=True)
    except subprocess.TimeoutExpired:
        # a mutant that never terminates: stop this check's workers (they run from HERE/.work/<prop>-...) and say so
        subprocess.run("pkill -f 'vv.worker --prop %s '; pkill -f 'vv.runner %s quick'" % (prop, prop), shell=True)
        return {"exit": "hang", "keys": [], "wall_s": round(time.time() - t0)}
    keys = re.findall(r"^VIOLATION property=\S+ replay=\S+\s+key=(\S+) occurrences=(\d+)", p.stdout, flags=re.M)
    return {"exit": p.returncode, "keys": [k for k, _ in keys][:4], "wall_s": round(time.time() - t0)}


def run_suite(wt):
    env = dict(os.environ, OPENBLAS_NUM_THREADS="1", OMP_NUM_THREADS="1", NUMBA_CACHE_DIR=os.path.join(wt, ".nbcache-suite"))
    env.pop("VECTORIZERS_VERIF", None)
    t0 = time.time()
    try:
        p = sh([PY, "-m", "pytest", "-q", "-p", "no:cacheprovider", "-x", "-n", "6", "--timeout=900", "vectorizers/tests",
                "--deselect", "vectorizers/tests/test_common.py::test_wasserstein_based_vectorizer_bad_params"], env=env, cwd=wt, timeout=2400)
        tail = (p.stdout or "").strip().split("\n")[-1]
        return {"exit": p.returncode, "tail": tail[-200:], "wall_s": round(time.time() - t0)}
    except subprocess.TimeoutExpired:
        return {"exit": "timeout", "tail": "", "wall_s": round(time.time() - t0)}


def cmd_run(a):
    data = json.load(open(a.mutants))
    muts = data["mutants"]
    rnd = random.Random(a.seed)
    done = set()
    if os.path.exists(a.out):
        for l in open(a.out):
            done.add(json.loads(l)["id"])
    if a.skip:
        done |= set(r["id"] for r in json.load(open(a.skip)))
    muts = [m for m in muts if m["id"] not in done]
    chosen = []
    props = sorted(set(p for m in muts for p in m["props"]))
    if a.only:
        props = [p for p in props if p in a.only.split(",")]
    seen = set()
    for p in props:
        pool = [m for m in muts if m["props"][0] == p or (p in m["props"] and rnd.random() < 0.3)]
        rnd.shuffle(pool)
        # spread over operators and files
        pool.sort(key=lambda m: 0)
        k = 0
        byop = {}
        for m in pool:
            if m["id"] in seen:
                continue
            if byop.get(m["op"], 0) >= max(2, a.per_prop // 3):
                continue
            byop[m["op"]] = byop.get(m["op"], 0) + 1
            seen.add(m["id"])
            chosen.append((p, m))
            k += 1
            if k >= a.per_prop:
                break
    print("chosen", len(chosen), "mutants; already done", len(done), flush=True)
    base = a.scratch
    os.makedirs(base, exist_ok=True)
    wt = os.path.join(base, "wt")
    if not os.path.isdir(wt):
        r = sh(["git", "-C", "/repo", "worktree", "add", "--detach", wt, "HEAD"])
        assert r.returncode == 0, r.stderr
    try:
        for own, m in chosen:
            if m["id"] in done:
                continue
            sh(["git", "-C", wt, "checkout", "--", "."])
            fp = os.path.join(wt, m["file"])
            b = open(fp, "rb").read()
            assert b[m["a"]:m["b"]].decode() == m["old"], "tree changed since gen"
            open(fp, "wb").write(b[:m["a"]] + m["new"].encode() + b[m["b"]:])
            rec = {"id": m["id"], "desc": m["desc"], "op": m["op"], "own": own, "props": m["props"], "checks": {}}
            imp = sh([PY, "-c", "import vectorizers"], cwd=wt, env=dict(os.environ, PYTHONPATH=wt, NUMBA_CACHE_DIR=os.path.join(base, "nbc")))
            if imp.returncode:
                rec["verdict"] = "does-not-import"
            else:
                order = [own] + [p for p in m["props"] if p != own]
                # checks whose workload reaches this file although the property is not anchored on this very line
                for key, extra in EXTRA.items():
                    if key in m["file"]:
                        order += [p for p in extra if p not in order]
                caught = None
                for p in order[:5]:
                    r = run_check(p, wt, base)
                    rec["checks"][p] = r
                    if r["exit"] == 1:
                        caught = p
                        break
                    if r["exit"] == "hang":
                        break
                if caught:
                    rec["verdict"] = "caught"
                    rec["caught_by"] = caught
                    rec["caught_by_own"] = caught == own
                elif any(v["exit"] == "hang" for v in rec["checks"].values()):
                    rec["verdict"] = "hang"
                else:
                    rec["verdict"] = "survived-checks"
                    if a.suite:
                        rec["suite"] = run_suite(wt)
                        rec["verdict"] = "survived-checks-and-suite" if rec["suite"]["exit"] == 0 else "survived-checks-killed-by-suite"
            with open(a.out, "a") as f:
                f.write(json.dumps(rec) + "\n")
            print(rec["verdict"], rec.get("caught_by", ""), m["desc"], {p: (v["exit"], v["wall_s"]) for p, v in rec["checks"].items()}, rec.get("suite", ""), flush=True)
    finally:
        sh(["git", "-C", "/repo", "worktree", "remove", "--force", wt])
        sh(["git", "-C", "/repo", "worktree", "prune"])
        shutil.rmtree(base, ignore_errors=True) if a.cleanup else None


def main():
    ap = argparse.ArgumentParser()
    sub = ap.add_subparsers(dest="cmd")
    g = sub.add_parser("gen")
    g.add_argument("--out", required=True)
    r = sub.add_parser("run")
    r.add_argument("--mutants", required=True)
    r.add_argument("--per-prop", type=int, default=8, dest="per_prop")
    r.add_argument("--seed", type=int, default=1)
    r.add_argument("--out", required=True)
    r.add_argument("--only", default=None)
    r.add_argument("--suite", action="store_true")
    r.add_argument("--skip", default=None, help="results.json of an earlier sweep: those mutants are not drawn again")
    r.add_argument("--scratch", default="/tmp/vv-mutsweep")
    r.add_argument("--cleanup", action="store_true")
    a = ap.parse_args()
    return cmd_gen(a) if a.cmd == "gen" else cmd_run(a)


if __name__ == "__main__":
    sys.exit(main())
