"""Mutation audit helper (maintenance, not a registered check).

    python -m vv.audit <patch.diff> --props C03,C04 [--tier quick] [--demo demo.py] [--json out.json]

Creates a scratch git worktree of /repo outside /repo and /verif, applies the patch there, optionally
confirms the demonstration (fails with the change, passes without), runs the given checks against the
scratch tree (VV_REPO), reports exit codes and violation keys, and removes the worktree again.
/repo itself is never touched."""
import argparse
import json
import os
import re
import shutil
import subprocess
import sys
import tempfile
import time

HERE = os.path.dirname(os.path.dirname(os.path.abspath(__file__)))
PY = "/venv/bin/python"


def sh(cmd, **kw):
    return subprocess.run(cmd, capture_output=True, text=True, **kw)


def run_demo(demo, root):
    env = dict(os.environ, PYTHONPATH=root, NUMBA_CACHE_DIR=os.path.join(root, ".nbcache-demo"), PYTHONHASHSEED="0",
               OPENBLAS_NUM_THREADS="1", OMP_NUM_THREADS="1")
    # the script's own directory is sys.path[0]: run a copy placed inside the scratch tree so that it imports *that* package
    local = os.path.join(root, "_demo_" + os.path.basename(demo))
    shutil.copy(demo, local)
    demo = local
    try:
        p = sh([PY, demo], env=env, cwd=root, timeout=3600)
        return p.returncode, (p.stdout + p.stderr)[-1500:]
    except subprocess.TimeoutExpired:
        return "timeout", ""


def main():
    ap = argparse.ArgumentParser()
    ap.add_argument("patch")
    ap.add_argument("--props", required=True)
    ap.add_argument("--tier", default="quick")
    ap.add_argument("--demo", default=None)
    ap.add_argument("--json", default=None)
    ap.add_argument("--seed", default="0")
    a = ap.parse_args()
    patch = os.path.abspath(a.patch)
    base = tempfile.mkdtemp(prefix="vv-audit-")
    wt = os.path.join(base, "wt")
    out = {"patch": patch, "tier": a.tier, "seed": a.seed, "checks": {}}
    try:
        r = sh(["git", "-C", "/repo", "worktree", "add", "--detach", wt, "HEAD"])
        if r.returncode:
            print(r.stderr)
            return 2
        out["repo_head"] = sh(["git", "-C", "/repo", "rev-parse", "--short", "HEAD"]).stdout.strip()
        if a.demo:
            rc0, _ = run_demo(os.path.abspath(a.demo), wt)
            out["demo_without_change"] = rc0
        r = sh(["git", "-C", wt, "apply", patch])
        if r.returncode:
            print("patch does not apply:", r.stderr)
            out["applies"] = False
            return 2
        out["applies"] = True
        if a.demo:
            rc1, tail = run_demo(os.path.abspath(a.demo), wt)
            out["demo_with_change"] = rc1
            out["demo_tail"] = tail[-600:]
        for prop in a.props.split(","):
            t0 = time.time()
            env = dict(os.environ, VV_REPO=wt, VERIF_SEED=a.seed, VV_EVIDENCE_DIR=os.path.join(base, "evidence"))  # never overwrite /verif/evidence from a mutated tree
            p = sh([os.path.join(HERE, "check"), prop, a.tier], env=env, cwd=HERE)
            keys = re.findall(r"^VIOLATION property=\S+ replay=\S+\s+key=(\S+) occurrences=(\d+)", p.stdout, flags=re.M)
            inc = re.findall(r"INCONCLUSIVE property=\S+ why=(.*)", p.stdout)
            out["checks"][prop] = {"exit": p.returncode, "violation_keys": [[k, int(n)] for k, n in keys], "inconclusive": inc[:3], "wall_s": round(time.time() - t0)}
            print("%s %s exit=%s  %s %s" % (prop, a.tier, p.returncode, ", ".join("%s(x%s)" % (k, n) for k, n in keys[:6]), ("INCONCLUSIVE: %s" % inc[0]) if inc else ""), flush=True)
    finally:
        sh(["git", "-C", "/repo", "worktree", "remove", "--force", wt])
        shutil.rmtree(base, ignore_errors=True)
    if a.json:
        json.dump(out, open(a.json, "w"), indent=1)
    caught = [p for p, v in out["checks"].items() if v["exit"] == 1]
    print("CAUGHT by: %s" % (",".join(caught) or "nothing"))
    return 0


if __name__ == "__main__":
    sys.exit(main())
