"""./check <Cxx> [quick|thorough] [--replay file]

Fans a property's plan out over worker subprocesses (one execution mode each),
aggregates their observation logs, applies the known-findings ledger, writes
evidence/<id>.json and replay files, and prints the verdict.

exit 0  held on everything observed (KNOWN-FINDING lines allowed)
exit 1  VIOLATION property=<id> replay=<path>
exit 2  INCONCLUSIVE (a deciding monitor observed nothing / worker lost / watchdog)
"""
import concurrent.futures as cf
import fnmatch
import hashlib
import importlib
import json
import os
import shutil
import subprocess
import sys
import time

HERE = os.path.dirname(os.path.dirname(os.path.abspath(__file__)))
PY = "/venv/bin/python"
MAXPROCS = int(os.environ.get("VV_JOBS", "16"))


def repo_identity(root):
    def git(*a):
        try:
            return subprocess.run(["git", "-C", root, *a], capture_output=True, text=True, timeout=30).stdout
        except Exception:
            return ""

    head = git("rev-parse", "HEAD").strip()
    diff = git("diff", "HEAD", "--", "vectorizers")
    return {
        "root": root,
        "head": head,
        "dirty_sha1": hashlib.sha1(diff.encode()).hexdigest()[:12] if diff else None,
    }


def job_env(job, work, idx, root):
    env = dict(os.environ)
    for k in ("NUMBA_DISABLE_JIT", "NUMBA_BOUNDSCHECK"):
        env.pop(k, None)
    mode = job["mode"]
    if mode == "PY":
        env["NUMBA_DISABLE_JIT"] = "1"
    elif mode == "BC":
        env["NUMBA_BOUNDSCHECK"] = "1"
    env["NUMBA_CACHE_DIR"] = os.path.join(work, "nbcache-%s-%d" % (mode, idx))
    env["PYTHONHASHSEED"] = "0"
    env["VECTORIZERS_VERIF"] = "1"
    env["VV_REPO"] = root
    env["PYTHONPATH"] = os.pathsep.join([root, HERE, os.path.join(HERE, ".deps")])
    env["PYTHONDONTWRITEBYTECODE"] = "1"
    env.setdefault("NUMBA_NUM_THREADS", "4")
    env["OMP_NUM_THREADS"] = env["OPENBLAS_NUM_THREADS"] = env["MKL_NUM_THREADS"] = "1"
    env["TMPDIR"] = os.path.join(work, "tmp-%d" % idx)
    os.makedirs(env["TMPDIR"], exist_ok=True)
    for k, v in (job.get("env") or {}).items():
        if v is None:
            env.pop(k, None)
        else:
            env[k] = str(v)
    return env


def run_job(spec):
    cmd, env, timeout, log = spec["cmd"], spec["env"], spec["timeout"], spec["log"]
    t0 = time.time()
    with open(log, "w") as lf:
        try:
            p = subprocess.run(cmd, env=env, stdout=lf, stderr=subprocess.STDOUT, timeout=timeout, cwd=HERE)
            rc = p.returncode
        except subprocess.TimeoutExpired:
            rc = "timeout"
    spec["rc"] = rc
    spec["wall"] = time.time() - t0
    return spec


def load_ledger():
    p = os.path.join(HERE, "known_findings.json")
    if not os.path.exists(p):
        return []
    return json.load(open(p))["findings"]


def main(argv):
    args = [a for a in argv if not a.startswith("--")]
    prop = args[0]
    tier = args[1] if len(args) > 1 else os.environ.get("VERIF_TIER", "quick")
    if tier not in ("quick", "thorough"):
        tier = "quick"
    seed = int(os.environ.get("VERIF_SEED", "0") or 0)
    root = os.path.realpath(os.environ.get("VV_REPO", "/repo"))
    sys.path.insert(0, HERE)
    mod = importlib.import_module("vv.props." + prop)
    work = os.path.join(HERE, ".work", "%s-%s-%d-%d" % (prop, tier, seed, os.getpid()))
    shutil.rmtree(work, ignore_errors=True)
    os.makedirs(work)

    if "--replay" in argv:
        path = argv[argv.index("--replay") + 1]
        rp = json.load(open(path))
        job = {"part": rp["part"], "mode": rp["mode"], "env": rp.get("env")}
        env = job_env(job, work, 0, root)
        out = os.path.join(work, "replay.jsonl")
        cmd = [PY, "-m", "vv.worker", "--prop", prop, "--part", rp["part"], "--mode", rp["mode"], "--tier", tier,
               "--seed", str(rp.get("seed", 0)), "--out", out, "--replay", os.path.abspath(path),
               "--args", json.dumps(rp.get("args") or {})]
        p = subprocess.run(cmd, env=env, cwd=HERE)
        viol = [json.loads(l) for l in open(out) if '"t": "viol"' in l] if os.path.exists(out) else []
        print("replay: %d violation record(s), worker exit %s" % (len(viol), p.returncode))
        shutil.rmtree(work, ignore_errors=True)
        return 1 if viol or p.returncode else 0

    t0 = time.time()
    plan = mod.plan(tier, seed)
    specs = []
    for j, job in enumerate(plan):
        n = job.get("shards", 1)
        for s in range(n):
            idx = len(specs)
            out = os.path.join(work, "out-%03d.jsonl" % idx)
            cmd = [PY, "-X", "faulthandler", "-m", "vv.worker", "--prop", prop, "--part", job["part"], "--mode", job["mode"],
                   "--tier", tier, "--seed", str(seed), "--shard", str(s), "--nshards", str(n), "--out", out,
                   "--args", json.dumps(job.get("args") or {})]
            specs.append({"cmd": cmd, "env": job_env(job, work, idx, root), "out": out,
                          "log": os.path.join(work, "log-%03d.txt" % idx),
                          "timeout": job.get("timeout", 1800 if tier == "quick" else 10800),
                          "job": job, "shard": s, "weight": job.get("weight", 1)})
    # heavier jobs first
    order = sorted(range(len(specs)), key=lambda i: -specs[i]["weight"])
    with cf.ThreadPoolExecutor(max_workers=MAXPROCS) as ex:
        list(ex.map(run_job, [specs[i] for i in order]))

    # ---------------------------------------------------------------- aggregate
    evaluations = 0
    nontrivial = set()
    counters = {}
    seen = {}
    samples = []
    viols = []
    results = {}
    per_mode = {}
    notes = []
    lost = []
    crash_cases = []
    files = set()
    for sp in specs:
        recs = []
        if os.path.exists(sp["out"]):
            for line in open(sp["out"]):
                try:
                    recs.append(json.loads(line))
                except Exception:
                    pass
        done = any(r["t"] == "done" for r in recs)
        open_case = None
        label = "%s/%s" % (sp["job"]["part"], sp["job"]["mode"])
        for r in recs:
            t = r["t"]
            if t == "oks":
                for h, nt, n in r["items"]:
                    evaluations += n
                    per_mode[label] = per_mode.get(label, 0) + n
                    if nt:
                        nontrivial.add(h)
            elif t == "count":
                counters[r["name"]] = counters.get(r["name"], 0) + r["n"]
            elif t == "seen":
                seen.setdefault(r["name"], set()).add(json.dumps(r["value"], sort_keys=True))
            elif t == "sample":
                if len(samples) < 6 and sum(1 for s in samples if s.get("part") == r["part"] and s.get("mode") == r["mode"]) < 2:
                    samples.append({"part": r["part"], "mode": r["mode"], "case": r["data"]})
            elif t == "viol":
                evaluations += 1
                per_mode[label] = per_mode.get(label, 0) + 1
                r["env"] = sp["job"].get("env")
                r["args"] = sp["job"].get("args")
                viols.append(r)
            elif t == "result":
                results.setdefault(r["cid"], {})[label + ("#%s" % sp["job"].get("tag") if sp["job"].get("tag") else "")] = r["value"]
            elif t == "begin":
                open_case = r
            elif t == "end":
                open_case = None
            elif t == "note":
                notes.append(r["text"])
            elif t == "hello":
                files.add(r["file"])
        if not done:
            tail = ""
            try:
                tail = open(sp["log"]).read()[-3000:]
            except Exception:
                pass
            info = {"part": sp["job"]["part"], "mode": sp["job"]["mode"], "shard": sp["shard"], "rc": sp["rc"],
                    "log_tail": tail, "env": sp["job"].get("env"), "args": sp["job"].get("args")}
            if open_case is not None and sp["rc"] != "timeout":
                info["case"] = open_case
                crash_cases.append(info)
            else:
                lost.append(info)

    if hasattr(mod, "aggregate"):
        for v in mod.aggregate(results, counters) or []:
            evaluations += 1
            viols.append(v)
        evaluations += counters.pop("_aggregate_evals", 0)

    for info in crash_cases:
        if getattr(mod, "CRASH_IS_VIOLATION", False):
            viols.append({"t": "viol", "part": info["part"], "mode": info["mode"], "env": info["env"], "args": info["args"],
                          "key": "%s/abnormal-exit/%s" % (prop, (info["case"].get("cid") or "?").split(":")[0]),
                          "what": "worker process died (rc=%s) while executing a case" % info["rc"],
                          "case": info["case"].get("case"), "detail": info["log_tail"][-1500:]})
        else:
            lost.append(info)

    # ---------------------------------------------------------------- ledger
    ledger = [f for f in load_ledger() if f["property"] == prop]
    known_hit = {}
    unknown = []
    for v in viols:
        hit = None
        for f in ledger:
            if f.get("status") == "known" and fnmatch.fnmatchcase(v["key"], f["key"]):
                hit = f
                break
        if hit:
            known_hit.setdefault(hit["key"], [hit, 0])[1] += 1
        else:
            unknown.append(v)

    os.makedirs(os.path.join(HERE, "replay"), exist_ok=True)
    replay_paths = []
    by_key = {}
    for v in unknown:
        by_key.setdefault(v["key"], []).append(v)
    for key, vs in by_key.items():
        v = min(vs, key=lambda x: len(json.dumps(x.get("case"), default=repr)))
        body = {"property": prop, "part": v["part"], "mode": v["mode"], "env": v.get("env"), "args": v.get("args"),
                "seed": seed, "tier": tier, "key": key, "what": v["what"], "detail": v.get("detail"),
                "case": v.get("case"), "occurrences": len(vs)}
        sha = hashlib.sha1(json.dumps([key, body["case"]], sort_keys=True, default=repr).encode()).hexdigest()[:8]
        path = os.path.join(HERE, "replay", "%s-%s.json" % (prop, sha))
        json.dump(body, open(path, "w"), indent=1, default=repr)
        replay_paths.append((key, path, len(vs), v["what"]))

    # ---------------------------------------------------------------- verdict
    inconclusive = []
    for name, mn in (getattr(mod, "REQUIRED", {}) or {}).get(tier, {}).items():
        have = counters.get(name, len(seen.get(name, ())))
        if have < mn:
            inconclusive.append("monitor counter %s=%d < %d" % (name, have, mn))
    for info in lost:
        inconclusive.append("worker %s/%s shard %d lost (rc=%s)" % (info["part"], info["mode"], info["shard"], info["rc"]))
    if evaluations == 0:
        inconclusive.append("no case reached an oracle")
    min_nt = (getattr(mod, "MIN_NONTRIVIAL", {}) or {}).get(tier, 2)
    if len(nontrivial) < min_nt:
        inconclusive.append("only %d distinct non-trivial cases (< %d)" % (len(nontrivial), min_nt))

    wall = time.time() - t0
    skips = {k[5:]: v for k, v in counters.items() if k.startswith("skip:")}
    mon = {k: v for k, v in counters.items() if not k.startswith("skip:")}
    ev = {
        "property_id": prop,
        "tier": tier,
        "seed": seed,
        "level": mod.LEVEL,
        "coverage": {
            "evaluations": evaluations,
            "distinct_nontrivial": len(nontrivial),
            "rule": mod.RULE,
            "samples": samples or [{"note": "no sample recorded"}],
            "per_part_mode": per_mode,
            "monitor_counters": mon,
            "distinct_observed": {k: len(v) for k, v in seen.items()},
            "distinct_observed_values": {k: sorted(v)[:40] for k, v in seen.items()},
            "ambiguous_or_rejected_skips": skips,
            "workers": len(specs),
            "notes": notes[:20],
            "known_findings_hit": {k: n for k, (f, n) in known_hit.items()},
        },
        "assumptions": list(getattr(mod, "ASSUMPTIONS", [])),
        "wall_s": round(wall, 2),
        "violations": len(unknown),
        "verdict": "violated" if unknown else ("inconclusive" if inconclusive else "held"),
        "inconclusive_reasons": inconclusive,
        "repo": dict(repo_identity(root), imported_from=sorted(files)),
    }
    if getattr(mod, "EXHAUSTIVE_NOTE", None):
        ev["coverage"]["exhaustive_subspace"] = mod.EXHAUSTIVE_NOTE
    evdir = os.environ.get("VV_EVIDENCE_DIR") or os.path.join(HERE, "evidence")
    os.makedirs(evdir, exist_ok=True)
    json.dump(ev, open(os.path.join(evdir, prop + ".json"), "w"), indent=1, default=repr)

    print("%s %s seed=%d: %d evaluations, %d distinct non-trivial, %d workers, %.0fs; per part/mode %s" % (
        prop, tier, seed, evaluations, len(nontrivial), len(specs), wall, json.dumps(per_mode)))
    if mon:
        print("monitors: " + json.dumps(mon))
    if seen:
        print("distinct observed: " + json.dumps({k: len(v) for k, v in seen.items()}))
    for f in ledger:
        if f.get("status") == "known":
            n = known_hit.get(f["key"], [f, 0])[1]
            print("KNOWN-FINDING: property=%s %s [key=%s; %s]" % (
                prop, f["what"], f["key"], ("reproduced %d time(s) in this run" % n) if n else "not reproduced by this run's sample"))
    if unknown:
        for key, path, n, what in replay_paths:
            print("VIOLATION property=%s replay=%s  key=%s occurrences=%d :: %s" % (prop, path, key, n, what))
        for why in inconclusive:
            print("ALSO-INCONCLUSIVE property=%s why=%s" % (prop, why))
        for info in lost[:2]:
            print("--- lost worker log tail (%s/%s):\n%s" % (info["part"], info["mode"], info["log_tail"][-1200:]))
        keep = os.environ.get("VV_KEEP")
        if not keep:
            shutil.rmtree(work, ignore_errors=True)
        return 1
    if inconclusive:
        for why in inconclusive:
            print("INCONCLUSIVE property=%s why=%s" % (prop, why))
        for info in lost[:3]:
            print("--- lost worker log tail (%s/%s):\n%s" % (info["part"], info["mode"], info["log_tail"][-1500:]))
        if not os.environ.get("VV_KEEP"):
            shutil.rmtree(work, ignore_errors=True)
        return 2
    print("HELD property=%s on everything observed" % prop)
    if not os.environ.get("VV_KEEP"):
        shutil.rmtree(work, ignore_errors=True)
    return 0


if __name__ == "__main__":
    sys.exit(main(sys.argv[1:]))
