#!/bin/bash
# usage: seed_run.sh <seed-id> <property> <patch> <demo> "<needs>" <props,comma>
cd /verif
id=$1; prop=$2; patch=$3; demo=$4; needs=$5; props=$6
out=/tmp/seed_$id.json
python -m vv.audit "$patch" --props "$props" --demo "$demo" --json "$out" > /tmp/seed_$id.log 2>&1
python3 vv/seed_add.py "$id" "$prop" "$patch" "$demo" "$needs" "$out" >> /tmp/seed_$id.log 2>&1
tail -2 /tmp/seed_$id.log
