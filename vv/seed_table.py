"""Prints the catch matrix (markdown) from seeded/*/meta.json."""
import json, glob, os
HERE = os.path.dirname(os.path.dirname(os.path.abspath(__file__)))
rows = []
for f in sorted(glob.glob(os.path.join(HERE, "seeded", "*", "meta.json"))):
    m = json.load(open(f))
    first = ", ".join(m.get("caught_by", [])) or "— (missed)"
    if m.get("check_widened_from_needs_description_before_first_audit"):
        first += " †"
    ran = ", ".join(sorted(set(k.split("/")[0] for k in m.get("checks_run", {}))))
    after = ", ".join(m.get("caught_by_after_strengthening", [])) if "caught_by_after_strengthening" in m else ""
    rows.append("| %s | %s | %s | %s | %s | %s |" % (m["id"], m["breaks_property"], m["needs_to_manifest"][:150], ran, first, after))
print("| seeded change | breaks | needs, in order to manifest | checks run (quick) | caught at first run by | after strengthening |")
print("|---|---|---|---|---|---|")
print("\n".join(rows))
