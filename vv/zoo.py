"""Estimator zoo: one uniform, JSON-serialisable case format for every public estimator and
transformer, used by the generic properties C01 / C02 / C12 / C13.

A case is {"zoo": name, "params": {...}, "train": ..., "test": ..., ...}.  For each zoo entry:
    gen(r)                 -> case
    make(case, V)          -> fresh estimator
    data(case, which)      -> (X, fit_kwargs or transform_kwargs) built from the JSON payload
    rows(out)              -> list of per-row comparable arrays (for row-wise estimators)
"""
import numpy as np
import scipy.sparse as sp

from vv import coh

ZOO = {}


def entry(name, rowwise=True, tol=1e-8, svd=False, group=None):
    def deco(cls):
        cls.name, cls.rowwise, cls.tol, cls.svd, cls.group = name, rowwise, tol, svd, group or name
        ZOO[name] = cls
        return cls
    return deco


def _docs(r, vocab, n=None, unseen=0.0, lens=(0, 1, 2, 3, 6, 14)):
    out = []
    for _ in range(n or r.randint(2, 6)):
        out.append([("u%d" % r.randrange(3)) if r.random() < unseen else "w%d" % r.randrange(vocab) for _ in range(r.choice(lens))])
    return out


def _strings(r, alpha, n=None, maxlen=30):
    return ["".join(r.choice(alpha) for _ in range(r.choice([0, 1, 2, 5, 12, maxlen]))) for _ in range(n or r.randint(2, 6))]


def to_dense(x):
    if sp.issparse(x):
        return np.asarray(x.todense(), dtype=float)
    return x


def as_rows(out):
    """Uniform per-row view of any estimator output."""
    if sp.issparse(out):
        return [np.asarray(r, dtype=float).ravel() for r in out.toarray()]
    if isinstance(out, np.ndarray):
        return [np.asarray(r, dtype=float).ravel() for r in out]
    rows = []
    for r in out:  # lists / typed lists of arrays or of token lists
        if len(r) and isinstance(r[0], str):
            rows.append(list(r))
        else:
            rows.append(np.asarray(r, dtype=float).ravel() if not (len(r) and isinstance(r[0], (list, np.ndarray)) and np.ndim(r) > 1) else np.asarray(r, dtype=float))
    return rows


def rows_equal(a, b, tol):
    if len(a) != len(b):
        return False, "row count %d vs %d" % (len(a), len(b))
    for i, (x, y) in enumerate(zip(a, b)):
        if isinstance(x, list) or isinstance(y, list):
            if list(x) != list(y):
                return False, "row %d differs" % i
            continue
        x, y = np.asarray(x, dtype=float), np.asarray(y, dtype=float)
        if x.shape != y.shape:
            return False, "row %d shape %s vs %s" % (i, x.shape, y.shape)
        if x.size and not np.allclose(x, y, rtol=tol, atol=tol, equal_nan=True):
            return False, "row %d differs by %.3g" % (i, float(np.nanmax(np.abs(x - y))))
    return True, ""


# =============================================================== token-sequence estimators
@entry("Ngram")
class ZNgram:
    @staticmethod
    def gen(r):
        vocab = r.randint(2, 8)
        tr = _docs(r, vocab, lens=(2, 3, 6, 14))
        p = {"ngram_size": r.choice([1, 1, 2, 3]), "ngram_behaviour": r.choice(["exact", "exact", "subgrams"])}
        if r.random() < 0.35:
            p["min_occurrences"] = 2
            if r.random() < 0.6:
                p["mask_string"] = "[M]"
                if r.random() < 0.4:
                    p["nullify_mask"] = True  # a supported constructor option: fit_transform / transform must still agree
        if max(len(d) for d in tr) < p["ngram_size"] + 1:
            tr.append(["w%d" % r.randrange(vocab) for _ in range(p["ngram_size"] + 3)])  # a corpus without any n-gram is not valid input
        return {"zoo": "Ngram", "params": p, "train": tr, "test": _docs(r, vocab + 1, unseen=0.25) + [[]]}

    @staticmethod
    def make(c, V):
        return V.NgramVectorizer(**c["params"])

    @staticmethod
    def data(c, which):
        return [list(d) for d in c[which]], {}


@entry("Skipgram")
class ZSkipgram:
    @staticmethod
    def gen(r):
        vocab = r.randint(2, 7)
        p = {"window_radius": r.choice([1, 2, 3, 5]), "kernel_function": r.choice(["flat", "harmonic", "geometric"]), "window_function": r.choice(["fixed", "fixed", "variable"])}
        if r.random() < 0.3:
            p["min_occurrences"] = 2
        return {"zoo": "Skipgram", "params": p, "train": _docs(r, vocab, lens=(2, 3, 6, 14)), "test": _docs(r, vocab + 1, unseen=0.25) + [[], ["w0"]]}

    @staticmethod
    def make(c, V):
        return V.SkipgramVectorizer(**c["params"])

    data = ZNgram.data


@entry("LZ")
class ZLZ:
    @staticmethod
    def gen(r):
        alpha = r.choice(["ab", "abcd", "xyzé中"])
        p = {"max_dict_size": r.choice([3, 17, 1 << 16]), "max_columns": r.choice([None, None, 7, 64, 1 << 16]), "random_state": r.randint(0, 9)}
        if p["max_columns"] is None and r.random() < 0.4:
            p["base_dictionary"] = {ch: r.randint(1, 3) for ch in alpha[:2]}
        return {"zoo": "LZ", "params": p, "train": _strings(r, alpha), "test": _strings(r, alpha + "q") + [""]}

    @staticmethod
    def make(c, V):
        return V.LZCompressionVectorizer(**c["params"])

    @staticmethod
    def data(c, which):
        return list(c[which]), {}


@entry("BPE")
class ZBPE:
    @staticmethod
    def gen(r):
        alpha = r.choice(["ab", "abc", "aé中"])
        tr = [s + "abab" for s in _strings(r, alpha)]
        p = {"max_vocab_size": r.choice([1, 2, 5, 50]), "min_token_occurrence": r.choice([1, 1, 2]), "return_type": r.choice(["matrix", "sequences", "tokens"]), "max_char_code": r.choice([0, "ascii"])}
        return {"zoo": "BPE", "params": p, "train": tr, "test": _strings(r, alpha + "z") + ["", alpha[0]]}

    @staticmethod
    def make(c, V):
        return V.BytePairEncodingVectorizer(**c["params"])

    data = ZLZ.data


# =============================================================== numeric-sequence estimators
def _numseqs(r, n=None, lo=0.0, hi=10.0, minlen=1):
    return [[round(r.uniform(lo, hi), r.choice([1, 3, 6])) for _ in range(r.randint(minlen, 30))] for _ in range(n or r.randint(2, 6))]


@entry("Histogram")
class ZHistogram:
    @staticmethod
    def gen(r):
        tr = _numseqs(r)
        tr[0] = tr[0] + [0.5, 4.25, 9.5]
        p = {"n_components": r.randint(2, 9), "append_outlier_bins": r.random() < 0.5, "strategy": r.choice(["uniform", "quantile"])}
        return {"zoo": "Histogram", "params": p, "train": tr, "test": _numseqs(r, lo=-5, hi=15) + [[]]}

    @staticmethod
    def make(c, V):
        return V.HistogramVectorizer(**c["params"])

    @staticmethod
    def data(c, which):
        return [np.array(s, dtype=float) for s in c[which]], {}


@entry("KDE")
class ZKDE:
    @staticmethod
    def gen(r):
        tr = _numseqs(r, minlen=3)
        p = {"bandwidth": r.choice([0.3, 0.7, 2.0]), "n_components": r.randint(2, 9), "evaluation_grid_strategy": r.choice(["uniform", "density"])}
        return {"zoo": "KDE", "params": p, "train": tr, "test": _numseqs(r, lo=-5, hi=15, minlen=1) + [[round(r.uniform(0, 10), 3)]]}

    @staticmethod
    def make(c, V):
        return V.KDEVectorizer(**c["params"])

    data = ZHistogram.data


@entry("Distribution", tol=1e-7)
class ZDistribution:
    @staticmethod
    def gen(r):
        def cloud():
            k = r.randint(5, 20)
            return [[round(r.gauss(0, 1) + r.choice([0, 4]), 4), round(r.gauss(0, 1), 4)] for _ in range(k)]
        return {"zoo": "Distribution", "params": {"n_components": r.choice([2, 3]), "random_state": r.randint(0, 5)}, "train": [cloud() for _ in range(r.randint(3, 5))],
                "test": [cloud() for _ in range(r.randint(2, 4))]}

    @staticmethod
    def make(c, V):
        return V.DistributionVectorizer(**c["params"])

    @staticmethod
    def data(c, which):
        return [np.array(s, dtype=float) for s in c[which]], {}


# =============================================================== measures over vectors
def _measure_rows(r, nrows, npts, density):
    rows = []
    for _ in range(nrows):
        idx = [j for j in range(npts) if r.random() < density]
        if len(idx) < 1:
            idx = [r.randrange(npts)]
        rows.append([[j, round(r.random() + 0.05, 4) * r.choice([1, 1, 3])] for j in idx])
    return rows


def _csr(rows, npts):
    ii, jj, vv = [], [], []
    for i, row in enumerate(rows):
        for j, v in row:
            ii.append(i)
            jj.append(j)
            vv.append(v)
    return sp.csr_matrix((vv, (ii, jj)), shape=(len(rows), npts))


def _gen_measures(r, zoo, extra):
    npts, dim = r.randint(6, 16), r.choice([2, 3, 5])
    vec = [[round(r.gauss(0, 1) + (2.0 if k == 0 else 0.0), 5) for k in range(dim)] for _ in range(npts)]
    ntr = r.randint(3, 7)
    c = {"zoo": zoo, "npts": npts, "dim": dim, "vectors": vec, "train": _measure_rows(r, ntr, npts, r.choice([0.3, 0.6])), "test": _measure_rows(r, r.choice([2, 3, 5, 9, 13]), npts, r.choice([0.3, 0.6]))}
    c.update(extra(r, c))
    return c


@entry("Wasserstein", tol=1e-8, svd=True)
class ZWasserstein:
    @staticmethod
    def gen(r):
        def extra(r, c):
            method = r.choice(["LOT_exact", "LOT_exact", "LOT_sinkhorn", "HeuristicLinearAlgebra"])
            im = r.choice(["spmatrix", "spmatrix", "lil", "generator"]) if method == "LOT_exact" else "spmatrix"
            nref = r.choice([1, 2, 4])
            ntr = len(c["train"])
            p = {"method": method, "input_method": im, "metric": r.choice(["cosine", "euclidean"]) if method != "HeuristicLinearAlgebra" else "cosine",
                 "reference_size": nref, "random_state": r.randint(0, 9), "memory_size": r.choice(["64", "200", "1k", "4k", "2G"]), "reference_scale": 0.5}
            # full rank: n_components = n_rows <= LOT dimension (so that the SVD is exact and fit == transform)
            if method == "HeuristicLinearAlgebra":
                p["n_components"] = min(ntr, c["dim"], c["npts"])
                p["heuristic_normalization_power"] = r.choice([1.0, 0.5])
            else:
                p["n_components"] = min(ntr, nref * c["dim"])
                if p["n_components"] < ntr:
                    # not full rank: only shapes/repeatability make sense, C02's equality is not demanded
                    pass
            ex = {"params": p, "explicit_reference": im == "generator" or r.random() < 0.3}
            if ex["explicit_reference"]:
                ex["ref_vectors"] = [[round(r.gauss(0, 1) + (2.0 if k == 0 else 0.0), 5) for k in range(c["dim"])] for _ in range(nref)]
                w = [r.random() + 0.1 for _ in range(nref)]
                ex["ref_distribution"] = [x / sum(w) for x in w]
            if im == "generator":
                p["generator_vector_dim"] = c["dim"]
            return ex
        return _gen_measures(r, "Wasserstein", extra)

    @staticmethod
    def make(c, V, n_items=None):
        p = dict(c["params"])
        if p["input_method"] == "generator":
            p["generator_n_distributions"] = n_items if n_items is not None else len(c["train"])
        return V.WassersteinVectorizer(**p)

    @staticmethod
    def data(c, which, fit=None):
        rows = c[which]
        vec = np.array(c["vectors"], dtype=float)
        im = c["params"]["input_method"]
        kw = {}
        if im == "spmatrix":
            X = _csr(rows, c["npts"])
            kw["vectors"] = vec
        else:
            dl = [np.array([v for _, v in row], dtype=float) for row in rows]
            vl = [np.ascontiguousarray(vec[[j for j, _ in row]]) for row in rows]
            if im == "lil":
                X, kw["vectors"] = dl, vl
            else:
                X, kw["vectors"] = (d for d in dl), (v for v in vl)
        if fit and c.get("explicit_reference"):
            rv = np.array(c["ref_vectors"], dtype=float)
            if c["params"]["metric"] == "cosine":
                rv = rv / np.linalg.norm(rv, axis=1, keepdims=True)
            kw["reference_vectors"] = rv
            kw["reference_distribution"] = np.array(c["ref_distribution"], dtype=float)
        return X, kw


@entry("Sinkhorn", tol=1e-8, svd=True)
class ZSinkhorn:
    @staticmethod
    def gen(r):
        def extra(r, c):
            nref = r.choice([2, 4])
            p = {"n_components": min(len(c["train"]), nref * c["dim"]), "reference_size": nref, "metric": r.choice(["cosine", "euclidean"]), "random_state": r.randint(0, 9),
                 "chunk_size": r.choice([1, 3, 32]), "memory_size": r.choice(["64", "200", "1k", "2G"]), "reference_scale": 0.5}
            return {"params": p, "explicit_reference": False}
        return _gen_measures(r, "Sinkhorn", extra)

    @staticmethod
    def make(c, V, n_items=None):
        return V.SinkhornVectorizer(**c["params"])

    @staticmethod
    def data(c, which, fit=None):
        return _csr(c[which], c["npts"]), {"vectors": np.array(c["vectors"], dtype=float)}


@entry("ApproxWasserstein", tol=1e-8, svd=True)
class ZApprox:
    @staticmethod
    def gen(r):
        def extra(r, c):
            return {"params": {"n_components": min(len(c["train"]), c["dim"]), "normalization_power": r.choice([1.0, 1.0, 0.5]), "random_state": r.randint(0, 9)}, "explicit_reference": False}
        return _gen_measures(r, "ApproxWasserstein", extra)

    @staticmethod
    def make(c, V, n_items=None):
        return V.ApproximateWassersteinVectorizer(**c["params"])

    @staticmethod
    def data(c, which, fit=None):
        X = _csr(c[which], c["npts"])
        return X, ({"vectors": np.array(c["vectors"], dtype=float)} if fit else {})


# =============================================================== count-matrix transformers
def _counts(r, n, m, density=0.4):
    A = [[(r.choice([1, 1, 2, 3, 7]) if r.random() < density else 0) for _ in range(m)] for _ in range(n)]
    for i in range(n):
        if not any(A[i]):
            A[i][r.randrange(m)] = 1
    for j in range(m):
        if not any(A[i][j] for i in range(n)):
            A[r.randrange(n)][j] = 1
    return A


def _gen_counts(zoo, pf):
    def gen(r):
        n, m = r.randint(3, 8), r.randint(4, 9)
        return {"zoo": zoo, "params": pf(r, n, m), "train": _counts(r, n, m), "test": _counts(r, r.randint(2, 6), m), "fmt": r.choice(["csr", "csr", "csc", "dense"])}
    return gen


def _count_data(c, which, fit=None):
    A = np.array(c[which], dtype=float)
    if c["fmt"] == "dense":
        return A, {}
    if c["fmt"] == "csc-unsorted":
        X = sp.csc_matrix(A)
        for j in range(A.shape[1]):
            lo, hi = X.indptr[j], X.indptr[j + 1]
            X.indices[lo:hi] = X.indices[lo:hi][::-1].copy()
            X.data[lo:hi] = X.data[lo:hi][::-1].copy()
        X.has_sorted_indices = False
        return X, {}
    if c["fmt"] == "csr-explicit-zeros":
        X = sp.csr_matrix(A)
        if X.nnz:
            X.data[0] = 0.0
        return X, {}
    return {"csr": sp.csr_matrix, "csc": sp.csc_matrix, "coo": sp.coo_matrix, "lil": sp.lil_matrix}[c["fmt"]](A), {}


@entry("InfoWeight", tol=1e-10)
class ZInfoWeight:
    gen = staticmethod(_gen_counts("InfoWeight", lambda r, n, m: {"prior_strength": r.choice([1e-4, 0.1]), "approx_prior": r.random() < 0.5, "weight_power": r.choice([1.0, 2.0])}))
    data = staticmethod(_count_data)

    @staticmethod
    def make(c, V, n_items=None):
        from vectorizers.transformers import InformationWeightTransformer
        return InformationWeightTransformer(**c["params"])


@entry("RowDenoise", tol=1e-5)
class ZRowDenoise:
    gen = staticmethod(_gen_counts("RowDenoise", lambda r, n, m: {"normalize": r.random() < 0.5, "em_background_prior": r.choice([0.3, 5.0])}))

    @staticmethod
    def data(c, which, fit=None):
        if c.get("fmt") == "csr-explicit-zeros":
            return _count_data(c, which, fit)
        A = np.array(c[which], dtype=float)
        return sp.csr_matrix(A), {}

    @staticmethod
    def make(c, V, n_items=None):
        from vectorizers.transformers import RowDenoisingTransformer
        return RowDenoisingTransformer(**c["params"])


@entry("CountFeatureCompression", tol=1e-6, svd=True)
class ZCFC:
    @staticmethod
    def gen(r):
        n = r.randint(3, 6)
        m = n + r.randint(1, 4)
        return {"zoo": "CountFeatureCompression", "params": {"n_components": n, "random_state": r.randint(0, 9), "algorithm": r.choice(["randomized", "randomized", "arpack"])},
                "train": _counts(r, n, m, 0.6), "test": _counts(r, r.randint(2, 5), m, 0.6), "fmt": r.choice(["csr", "dense"])}

    data = staticmethod(_count_data)

    @staticmethod
    def make(c, V, n_items=None):
        from vectorizers.transformers import CountFeatureCompressionTransformer
        p = dict(c["params"])
        if p["algorithm"] == "arpack":
            p["n_components"] = max(1, p["n_components"] - 1)  # arpack needs k < min(shape)
        return CountFeatureCompressionTransformer(**p)


# =============================================================== sliding windows
@entry("SlidingWindow", tol=1e-12)
class ZSliding:
    @staticmethod
    def gen(r):
        w = r.randint(2, 7)
        return {"zoo": "SlidingWindow", "params": {"window_width": w, "window_stride": r.randint(1, 3), "window_sample": r.choice([None, None, 2])},
                "train": [[round(r.gauss(0, 1), 4) for _ in range(r.randint(w, 30))] for _ in range(3)], "test": [[round(r.gauss(0, 1), 4) for _ in range(r.randint(w, 30))] for _ in range(r.randint(2, 5))]}

    @staticmethod
    def make(c, V, n_items=None):
        from vectorizers.transformers import SlidingWindowTransformer
        return SlidingWindowTransformer(**c["params"])

    @staticmethod
    def data(c, which, fit=None):
        return [np.array(s, dtype=float) for s in c[which]], {}


@entry("SeqDiff", tol=1e-12)
class ZSeqDiff:
    @staticmethod
    def gen(r):
        s = r.randint(1, 4)
        return {"zoo": "SeqDiff", "params": {"stride": s}, "train": [[round(r.gauss(0, 1), 4) for _ in range(r.randint(s + 1, 30))] for _ in range(3)],
                "test": [[round(r.gauss(0, 1), 4) for _ in range(r.randint(s + 1, 30))] for _ in range(r.randint(2, 5))]}

    @staticmethod
    def make(c, V, n_items=None):
        from vectorizers.transformers import SequentialDifferenceTransformer
        return SequentialDifferenceTransformer(**c["params"])

    data = ZSliding.data


# =============================================================== not row-wise: edge list, co-occurrence family, tree
@entry("EdgeList", rowwise=False)
class ZEdgeList:
    @staticmethod
    def gen(r):
        from vv.props.C06 import gen_edge
        c = gen_edge(r)
        return {"zoo": "EdgeList", "params": {"joint_space": c["joint"]}, "train": c["E"], "test": c["T"]}

    @staticmethod
    def make(c, V, n_items=None):
        return V.EdgeListVectorizer(**c["params"])

    @staticmethod
    def data(c, which, fit=None):
        return [tuple(e) for e in c[which]], {}


def _cooc_entry(estk):
    class Z:
        @staticmethod
        def gen(r):
            kern = r.choice(coh.KERNELS[estk])
            shape = (estk, kern, [r.choice(["directional", "after", "before"])], False)
            c = coh.gen_case(r, shape=shape, em=r.random() < 0.3, lengths=[0, 1, 2, 3, 6, 15])
            c["n_threads"] = r.choice([1, 1, 2])
            # transform set: training vocabulary + unseen tokens, possibly lacking the highest index
            c2 = coh.gen_case(r, shape=shape, allow_prune=False, lengths=[0, 1, 3, 8])
            toks = sorted(set(coh._flat_tokens(c)))
            def remap(t):
                return r.choice(toks) if (toks and r.random() < 0.8) else "unseen_" + t
            if estk == "multi":
                test = {"mdocs": [[[remap(t) for t in ms] for ms in d] for d in c2["mdocs"] if d] or [[[toks[0] if toks else "t0"]]]}
            else:
                test = {"docs": [[remap(t) for t in d] for d in c2["docs"]]}
                if estk == "timed":
                    test["times"] = [[float(k) for k in range(len(d))] for d in test["docs"]]
            return {"zoo": "Cooc-" + estk, "case": c, "test": test}

        @staticmethod
        def make(c, V, n_items=None):
            return coh.build(c["case"], V)

        @staticmethod
        def data(c, which, fit=None):
            if which == "train":
                return coh.data_of(c["case"]), {}
            return coh.data_of(dict(c["case"], **c["test"])), {}

    Z.__name__ = "ZCooc" + estk
    return entry("Cooc-" + estk, rowwise=False, tol=1e-6, group="Cooc")(Z)


for _e in coh.EST:
    _cooc_entry(_e)


@entry("Tree", rowwise=False, tol=1e-9)
class ZTree:
    @staticmethod
    def gen(r):
        from vv.props.C15 import gen_case
        c = gen_case(r)
        c2 = gen_case(r)
        labs = sorted(set(l for t in c["trees"] for l in t["labels"]))
        for t in c2["trees"]:
            t["labels"] = [r.choice(labs) if r.random() < 0.8 else "unseen" for _ in t["labels"]]
        p = {"window_radius": c["R"], "kernel_function": c["kernel"], "window_orientation": c["orientation"]}
        if r.random() < 0.3:
            p["mask_string"] = "[M]"
            p["min_occurrences"] = 2
        return {"zoo": "Tree", "params": p, "train": c["trees"], "test": c2["trees"], "adj": r.choice(["csr", "csr", "lil", "csr-int", "lil-int"])}

    @staticmethod
    def make(c, V, n_items=None):
        return V.LabelledTreeCooccurrenceVectorizer(**c["params"])

    @staticmethod
    def data(c, which, fit=None):
        from vv.props.C15 import to_adj
        return [(to_adj(t["par"], c.get("adj", "csr")), np.array(t["labels"])) for t in c[which]], {}


def float_tol(c, est, base):
    """Tolerance for comparing two *different batchings* of the same items through a float pipeline:
    entropic pipelines stop on a tolerance shared by the batch; SVD pipelines divide by sqrt(singular values)."""
    import numpy as _np

    name = c["zoo"]
    p = c.get("params") or {}
    tol = base
    if name == "Sinkhorn" or (name == "Wasserstein" and p.get("method") == "LOT_sinkhorn"):
        tol = max(tol, 1e-6)
    if ZOO[name].svd:
        sv = getattr(est, "singular_values_", None)
        if sv is None:
            sv = getattr(est, "component_scaling_", None)
        if sv is not None and _np.size(sv):
            cond = float(_np.max(_np.abs(sv)) / max(_np.min(_np.abs(sv)), 1e-300))
            tol = max(tol, min(1e-4, 1e-8 * cond**2))
    return tol


def make(c, V, n_items=None):
    z = ZOO[c["zoo"]]
    try:
        return z.make(c, V, n_items)
    except TypeError:
        return z.make(c, V)


def data(c, which, fit=False):
    z = ZOO[c["zoo"]]
    try:
        return z.data(c, which, fit)
    except TypeError:
        return z.data(c, which)


def n_items(c, which):
    if c["zoo"].startswith("Cooc"):
        cc = c["case"] if which == "train" else dict(c["case"], **c["test"])
        return len(cc["mdocs"] if cc["est"] == "multi" else cc["docs"])
    return len(c[which])


def subset(c, which, idx):
    """Case with only items idx of `which` (for batch splitting / permutation)."""
    c2 = dict(c)
    if c["zoo"].startswith("Cooc"):
        raise ValueError("not row-wise")
    c2[which] = [c[which][i] for i in idx]
    return c2
