"""C04 — co-occurrence results do not depend on threads, buffer sizes or data volume."""
import os
import threading
import time

import numpy as np

from vv import coh
from vv.core import t32_tol
from vv.mon import cooshadow
from vv.ref import cooc as R

ID = "C04"
LEVEL = "exploration"
TECHNIQUE = "runtime monitoring: shadow-model invariant hooked on every coo_append (interpreted mode, merge threshold lowered from outside) with line counters proving the merge/growth paths were reached; exact conservation against a vectorised reference at the real threshold and real volumes (JIT); run-to-run equality over an n_threads x memory x pool x delay grid with a dask task recorder"
LEVEL_TEXT = ("Three layers. (1) In interpreted mode every append into the CooArray accumulator of all four vectorizers runs under a shadow model "
              "(in = held after every compaction, merge and growth) with COO_QUICKSORT_LIMIT lowered to 2..1024 so that multi-level merges and "
              "several growths happen on small corpora; sys.monitoring line counters record that the tail loops, the new-depth branch, merge-all "
              "and growth were actually executed, and the run is inconclusive otherwise. The lowered threshold is also run compiled, with the final "
              "accumulator state read at the Python boundary. (2) One corpus is fitted over a grid of n_threads, coo_initial_memory, dask pool "
              "size, NUMBA_NUM_THREADS and injected task-boundary delays; all results must equal the single-thread default-memory run (exactly "
              "for integer-valued settings). (3) With the real threshold untouched, corpora producing 0.9x..8x (quick) / ..200x (thorough) the "
              "threshold per window, with tiny and with huge numbers of distinct cells, are fitted (and fitted on 1/30 then transformed whole) by all "
              "four vectorizers and compared exactly, event for event, with a vectorised count. A worker that dies is a violation. Held = no "
              "violation on the executions produced.")
LEVEL_NOTE = "No source hook: the merge threshold is a module constant assigned by the harness before first use (numba freezes globals at first compile; interpreted kernels read it per call); the assignment's effect is verified from the observed growth step."
RULE = ("case = (estimator, corpus, window parameters, n_threads, coo_initial_memory, merge threshold) resp. a grid point resp. a volume run; "
        "non-trivial when the accumulator compacted at least once or the run used >= 2 chunks or > 1x threshold events; distinct = hash of the case")
ASSUMPTIONS = [
    "exact equality is demanded for flat kernels without normalisation (integer cells < 2^24); T32 otherwise",
    "interleavings are those dask produces on this machine plus injected 0-3 ms delays at task boundaries (the only scheduling points)",
]
CRASH_IS_VIOLATION = True
MIN_NONTRIVIAL = {"quick": 150, "thorough": 1500}
REQUIRED = {
    "quick": {"shadow_invariant_evaluations": 5000, "coo_compactions": 1000, "coo_growths": 50, "coo_states": 8, "coo_lines_reached": len(cooshadow.MARKERS),
              "limit_effect_verified": 20, "grid_points": 60, "volume_runs": 12, "jit_lowlimit_runs": 40, "dask_tasks_recorded": 50},
    "thorough": {"shadow_invariant_evaluations": 50000, "coo_compactions": 10000, "coo_growths": 500, "coo_states": 15, "coo_lines_reached": len(cooshadow.MARKERS),
                 "limit_effect_verified": 200, "grid_points": 400, "volume_runs": 40, "jit_lowlimit_runs": 300, "dask_tasks_recorded": 400},
}
NAMES = {"token": "TokenCooccurrenceVectorizer", "timed": "TimedTokenCooccurrenceVectorizer", "multi": "MultiSetCooccurrenceVectorizer", "ngram": "NgramCooccurrenceVectorizer"}


def plan(tier, seed):
    q = tier == "quick"
    jobs = []
    for lim in (2, 3, 8, 64, 1024):
        jobs.append({"part": "shadow", "mode": "PY", "shards": 2 if q else 3, "args": {"limit": lim}, "weight": 2})
    for k, lim in enumerate((3, 8, 64)):
        jobs.append({"part": "jitlow", "mode": "JIT", "shards": 1, "args": {"limit": lim, "est": ["token", "timed", "multi"][k]}, "weight": 5})
    jobs.append({"part": "jitlow", "mode": "JIT", "shards": 1, "args": {"limit": 8, "est": "ngram"}, "weight": 5})
    for est in coh.EST:
        jobs.append({"part": "grid", "mode": "JIT", "shards": 1, "args": {"est": est}, "env": {"NUMBA_NUM_THREADS": "16" if est in ("token", "multi") else "1"}, "weight": 6})
    for est in coh.EST:
        jobs.append({"part": "volume", "mode": "JIT", "shards": 2 if q else 3, "args": {"est": est}, "weight": 8, "timeout": 2400 if q else 10800})
    return jobs


# ------------------------------------------------------------------ layer 1: shadow invariant (PY)
def gen_shadow_case(r, est=None):
    shape = None
    if est:
        shape = (est, "flat", [r.choice(["directional", "after", "before"])], False)
    c = coh.gen_case(r, shape=shape, allow_prune=r.random() < 0.2, allow_variable=False, lengths=[0, 1, 3, 10, 30, 80, 150])
    c["kernel"] = r.choice(["flat", "flat", c["kernel"]])
    c["mem"] = r.choice(["1k", "1k", "4k", "16k", None])
    c["n_threads"] = r.choice([1, 1, 2, 3])
    if r.random() < 0.6:
        c["normalize_windows"] = False
        c["knorm"] = [False] * len(c["knorm"])
        c["mix"] = [1.0] * len(c["mix"])
    return c


def check_shadow(ctx, c, sh=None):
    import vectorizers as V

    if sh is None:
        sh = cooshadow.install(ctx, ctx.args.get("limit", 8))
        cooshadow.install_line_counters(ctx)
    okv, why = coh.valid_input(c)
    if not okv:
        return ctx.skip("invalid input: " + why)
    if _too_many_compactions(c, sh.limit):
        return ctx.skip("lowered threshold would need more merge levels than any real run (events > 256 x limit)")
    name = NAMES[c["est"]]
    sg = coh.sig(c)
    sh.reset()
    try:
        est = coh.build(c, V)
        with _single_threaded_dask():
            M = est.fit_transform(coh.data_of(c))
    except ValueError as e:
        if "dictionary is empty" in str(e):
            return ctx.skip("rejected input: empty vocabulary")
        ctx.violation("C04/%s/fit-raises/ValueError" % name, "fit raised ValueError: %s" % str(e)[:160], c, None, sig=sg)
        return
    except Exception as e:
        tiny = "tiny-buffer" if (c["mem"] == "1k") else "normal-buffer"
        prob = sh.problems[0][0] if sh.problems else "no-monitor-event"
        ctx.violation("C04/%s/fit-raises/%s/%s/%s" % (name, type(e).__name__, tiny, prob), "fit raised %s: %s" % (type(e).__name__, str(e)[:160]), c,
                      {"monitor": sh.problems[:3], "coo_sizes": getattr(est, "_coo_sizes", None)}, sig=sg)
        return
    for g in sh.growths:
        want = max(int(round(1.5 * g[0])), sh.limit + 1)
        if g[1] == want:
            ctx.count("limit_effect_verified")
        else:
            ctx.count("limit_effect_mismatch")
    if sh.problems:
        k, d = sh.problems[0]
        ctx.violation("C04/%s/shadow/%s" % (name, k), "CooArray shadow invariant broken: %s" % k, c, {"first": d, "n_problems": len(sh.problems), "limit": sh.limit}, sig=sg)
        return
    ref = coh.reference(c, est)
    if ref.M is not None:
        Md = M.toarray().astype(float)
        tol = t32_tol(ref.CNT, np.abs(ref.M))
        if Md.shape != ref.M.shape or np.any(np.abs(Md - ref.M) > tol):
            ctx.violation("C04/%s/result-differs-from-reference" % name, "matrix differs from the reference with limit=%s mem=%s n_threads=%d" % (sh.limit, c["mem"], c["n_threads"]), c, None, sig=sg)
            return
    ctx.ok(sg, sh.nappend > 0 and bool(sh.shadow))


def _too_many_compactions(c, limit):
    """The run stack holds 2*ceil(log2(buffer)) >= 10 levels, i.e. >= 1024 compactions; at the real threshold that is
    2^34 x 65536 events.  With a lowered threshold keep well inside what a real run can reach."""
    toks = sum(len(d) for d in c["docs"]) if c["est"] != "multi" else sum(len(ms) for d in c["mdocs"] for ms in d)
    events = toks * (max(c["radii"]) + (5 if c["est"] == "multi" else 0))
    return events > 256 * limit


class _single_threaded_dask:
    """The shadow monitor's state is not thread-safe: run dask tasks synchronously while it is installed."""

    def __enter__(self):
        import dask

        self.cm = dask.config.set(scheduler="synchronous")
        self.cm.__enter__()

    def __exit__(self, *a):
        self.cm.__exit__(*a)


def run_shadow(ctx):
    lim = int(ctx.args["limit"])
    sh = cooshadow.install(ctx, lim)
    cooshadow.install_line_counters(ctx)
    n = ctx.pick(110, 700)
    for i in ctx.indices(n):
        r = ctx.rng(lim, i)
        c = gen_shadow_case(r, est=coh.EST[i % 4])
        if lim >= 64:
            # enough events to cross the threshold several times
            c["docs"] = [coh.gen_tokens(r, r.choice([2, 6, 40]), r.choice([150, 400])) for _ in range(r.randint(1, 3))]
            c["radii"] = [r.choice([3, 5])] * len(c["radii"])
            if c["est"] == "timed":
                c["times"] = [[float(k) for k in range(len(d))] for d in c["docs"]]
            if c["est"] == "multi":
                c["mdocs"] = [[d[k : k + 2] for k in range(0, len(d), 2)] for d in c["docs"]]
        if i < 1:
            ctx.sample({k: (v if k not in ("docs", "mdocs", "times") else str(v)[:200]) for k, v in c.items()})
        check_shadow(ctx, c, sh)


# ------------------------------------------------------------------ layer 1b: lowered threshold, compiled
def run_jitlow(ctx):
    import vectorizers.coo_utils as cu

    lim = int(ctx.args["limit"])
    cu.COO_QUICKSORT_LIMIT = lim  # before the first compilation: numba freezes the global then
    import vectorizers as V

    estk = ctx.args["est"]
    mods = {"token": "token_cooccurrence_vectorizer", "timed": "timed_token_cooccurrence_vectorizer", "ngram": "ngram_token_cooccurence_vectorizer", "multi": "multi_token_cooccurence_vectorizer"}
    cls = {"token": V.TokenCooccurrenceVectorizer, "timed": V.TimedTokenCooccurrenceVectorizer, "multi": V.MultiSetCooccurrenceVectorizer, "ngram": V.NgramCooccurrenceVectorizer}[estk]
    finals = []
    orig = cls._build_skip_grams

    def spy(self, token_sequences):
        res = orig(self, token_sequences)
        for coo in res:
            finals.append((int(coo.ind[0]), len(coo.key), int(coo.depth[0]), cooshadow.final_state_ok(coo)))
        return res

    cls._build_skip_grams = spy
    shape = (estk, "flat", ["directional"], False)
    n = ctx.pick(60, 400) if estk != "ngram" else ctx.pick(12, 60)
    for i in range(n):
        r = ctx.rng(estk, lim, i)
        c = coh.gen_case(r, shape=shape, allow_prune=False, allow_variable=False, lengths=[0, 2, 10, 40, 120, 300])
        c.update(normalize_windows=False, knorm=[False], mix=[1.0], offset=[0], mem=r.choice(["1k", "4k", "64k", None]), n_threads=1)
        if c["est"] == "ngram":
            c["ngram"] = 1
        okv, _ = coh.valid_input(c)
        if not okv or _too_many_compactions(c, lim):
            continue
        sg = coh.sig(c)
        del finals[:]
        cid = "jitlow:%s" % sg
        ctx.begin(cid, c)
        try:
            est = coh.build(c, V)
            M = est.fit_transform(coh.data_of(c))
        except ValueError as e:
            ctx.end(cid)
            if "dictionary is empty" in str(e):
                continue
            ctx.violation("C04/%s/jit-low-threshold/fit-raises/ValueError" % NAMES[estk], str(e)[:160], c, None, sig=sg)
            continue
        except Exception as e:
            ctx.end(cid)
            ctx.violation("C04/%s/jit-low-threshold/fit-raises/%s" % (NAMES[estk], type(e).__name__), "fit raised %s: %s" % (type(e).__name__, str(e)[:160]), c, None, sig=sg)
            continue
        ctx.end(cid)
        ctx.count("jit_lowlimit_runs")
        bad = [f for f in finals if f[3]]
        for f in finals:
            ctx.seen("jit_final_states", [f[2], f[1] > int(getattr(est, "_coo_sizes", [0])[0]) if hasattr(est, "_coo_sizes") else False])
            if f[1] != int(est._coo_sizes[0]) and f[1] == max(int(round(1.5 * int(est._coo_sizes[0]))), lim + 1):
                ctx.count("limit_effect_verified")
        if bad:
            ctx.violation("C04/%s/jit-low-threshold/final-state/%s" % (NAMES[estk], bad[0][3]), "final CooArray state invalid: %s" % bad[0][3], c, {"finals": finals}, sig=sg)
            continue
        ref = coh.reference(c, est)
        if ref.M is not None and (M.shape != ref.M.shape or np.any(M.toarray() != ref.M)):
            d = M.toarray() - ref.M
            ctx.violation("C04/%s/jit-low-threshold/%s" % (NAMES[estk], "events-lost" if d.sum() < 0 else "events-duplicated-or-misplaced"),
                          "with COO_QUICKSORT_LIMIT=%d the matrix differs from the exact count (sum of differences %g)" % (lim, d.sum()), c, {"finals": finals}, sig=sg)
            continue
        ctx.ok(sg, any(f[2] >= 1 for f in finals))


# ------------------------------------------------------------------ layer 2: grid equality
class TaskRecorder:
    def __init__(self, cls, ctx, delays):
        self.cls, self.ctx, self.delays = cls, ctx, delays
        self.events = []
        self.lock = threading.Lock()
        self.orig = cls._build_coo
        rec = self

        def build_coo(self_, token_sequences):
            t0 = time.monotonic_ns()
            d = rec.delays
            if d:
                time.sleep(d[(threading.get_ident() + len(token_sequences)) % len(d)] / 1000.0)
            out = rec.orig(self_, token_sequences=token_sequences)
            if d:
                time.sleep(d[(threading.get_ident() * 7 + len(token_sequences)) % len(d)] / 1000.0)
            with rec.lock:
                rec.events.append((len(token_sequences), threading.get_ident(), t0, time.monotonic_ns()))
            return out

        cls._build_coo = build_coo

    def summary(self):
        ev = sorted(self.events, key=lambda e: e[3])
        order = tuple(e[0] for e in ev)
        mx, pts = 0, []
        for e in self.events:
            pts += [(e[2], 1), (e[3], -1)]
        cur = 0
        for _, d in sorted(pts):
            cur += d
            mx = max(mx, cur)
        return order, mx, len(set(e[1] for e in self.events))

    def clear(self):
        self.events = []

    def uninstall(self):
        self.cls._build_coo = self.orig


def run_grid(ctx):
    import dask
    import vectorizers as V

    estk = ctx.args["est"]
    cls = {"token": V.TokenCooccurrenceVectorizer, "timed": V.TimedTokenCooccurrenceVectorizer, "multi": V.MultiSetCooccurrenceVectorizer, "ngram": V.NgramCooccurrenceVectorizer}[estk]
    r = ctx.rng(estk)
    ncorp = ctx.pick(1, 4)
    for ci in range(ncorp):
        shape = (estk, "flat" if ci % 2 == 0 else ("harmonic" if estk in ("token", "ngram") else "geometric"), ["directional"], False)
        c = coh.gen_case(r, shape=shape, allow_prune=False, allow_variable=False, lengths=[0, 1, 5, 20, 60, 60])
        c["docs"] = [coh.gen_tokens(r, 15, r.choice([0, 3, 20, 60])) for _ in range(40)]
        if estk == "timed":
            c["times"] = [[float(k) * 0.5 for k in range(len(d))] for d in c["docs"]]
        if estk == "multi":
            c["mdocs"] = [[d[k : k + 2] for k in range(0, len(d), 2)] for d in c["docs"] if d]
        if estk == "ngram":
            c["ngram"] = 1 if ci % 2 == 0 else 2
        if shape[1] == "flat":
            c.update(normalize_windows=False, knorm=[False], mix=[1.0])
        c["radii"] = [4]
        exact = shape[1] == "flat"
        base = None
        sg0 = coh.sig(c)
        grid = [(nt, mem, pool, delays) for nt in (1, 2, 3, 5, 8, 16) for mem in ("1k", "4k", "64k", "2M", None) for pool in ((1, 4, 16) if nt > 1 else (4,))
                for delays in ((), (0, 1, 3))]
        if ctx.quick:
            step = 9 if estk == "ngram" else 3  # every NgramCooccurrenceVectorizer instance recompiles its kernel (~3 s)
            grid = [g for k, g in enumerate(grid) if (g[0] == 1 and g[1] is None and not g[3]) or k % step == ci % step]
        elif estk == "ngram":
            grid = [g for k, g in enumerate(grid) if (g[0] == 1 and g[1] is None and not g[3]) or k % 3 == ci % 3]
        grid.sort(key=lambda g: not (g[0] == 1 and g[1] is None and not g[3]))
        rec = TaskRecorder(cls, ctx, ())
        for nt, mem, pool, delays in grid:
            cg = dict(c, n_threads=nt, mem=mem)
            cid = "grid:%s:%s:%s:%s:%s" % (estk, nt, mem, pool, bool(delays))
            rec.delays = delays
            rec.clear()
            ctx.begin(cid, {"case": sg0, "n_threads": nt, "mem": mem, "pool": pool, "delays": delays})
            try:
                with dask.config.set(scheduler="threads", num_workers=pool):
                    est = coh.build(cg, V)
                    M = est.fit_transform(coh.data_of(cg)).toarray()
            except Exception as e:
                ctx.end(cid)
                tiny = "tiny-buffer" if mem == "1k" else "normal-buffer"
                ctx.violation("C04/%s/grid/fit-raises/%s/%s" % (NAMES[estk], type(e).__name__, tiny), "n_threads=%d memory=%s pool=%d: %s: %s" % (nt, mem, pool, type(e).__name__, str(e)[:140]),
                              dict(cg, pool=pool, delays=list(delays)), None, sig=cid)
                continue
            ctx.end(cid)
            ctx.count("grid_points")
            order, mx, nthr = rec.summary()
            ctx.count("dask_tasks_recorded", len(rec.events))
            if nt > 1:
                ctx.seen("dask_completion_orders", [estk, nt, list(order)])
                ctx.seen("dask_max_concurrency", mx)
            if base is None:
                base = M
                ref = coh.reference(cg, est)
                base_tol = 2 * t32_tol(ref.CNT, np.abs(ref.M)) if ref.M is not None else None
                if ref.M is not None:
                    tol = 0 if exact else t32_tol(ref.CNT, np.abs(ref.M))
                    if M.shape != ref.M.shape or np.any(np.abs(M - ref.M) > tol):
                        ctx.violation("C04/%s/grid/baseline-differs-from-reference" % NAMES[estk], "single-thread default-memory run differs from the reference", cg, None, sig=cid)
                continue
            # non-integer kernels: both runs are within T32 of the exact value, so they are within 2*T32 of each other
            if M.shape != base.shape or (np.any(M != base) if exact else (np.any(np.abs(M - base) > base_tol) if base_tol is not None else not np.allclose(M, base, rtol=1e-4, atol=1e-7))):
                d = (M - base) if M.shape == base.shape else None
                ctx.violation("C04/%s/grid/differs-from-single-thread-run/%s" % (NAMES[estk], "n_threads>1" if nt > 1 else "memory"),
                              "n_threads=%d memory=%s pool=%d delays=%s: result differs from n_threads=1 default memory (sum diff %s)" % (nt, mem, pool, bool(delays), None if d is None else float(d.sum())),
                              dict(cg, pool=pool, delays=list(delays)), None, sig=cid)
                continue
            ctx.ok(cid + str(ci), nt > 1 or mem is not None)
        rec.uninstall()
        if ci == 0:
            ctx.sample({"grid_over": {"n_threads": [1, 2, 3, 5, 8, 16], "memory": ["1k", "4k", "64k", "2M", "default"], "dask_pool": [1, 4, 16], "delays_ms": [[], [0, 1, 3]]},
                        "corpus": "40 documents of 0..60 tokens over 15 tokens", "estimator": estk})


# ------------------------------------------------------------------ layer 3: real threshold, real volume
def run_volume(ctx):
    import vectorizers as V
    import vectorizers.coo_utils as cu

    LIM = int(cu.COO_QUICKSORT_LIMIT)
    estk = ctx.args["est"]
    cls = {"token": V.TokenCooccurrenceVectorizer, "timed": V.TimedTokenCooccurrenceVectorizer, "multi": V.MultiSetCooccurrenceVectorizer, "ngram": V.NgramCooccurrenceVectorizer}[estk]
    rad = 5
    mults = [0.9, 1.1, 3.0, 8.0] if ctx.quick else [0.9, 1.1, 3.0, 8.0, 40.0, 200.0]
    if ctx.quick and estk == "multi":
        mults = [0.9, 1.1, 3.0]  # the multiset kernel re-allocates its buffers for every document
    runs = []
    for mult in mults:
        for vocab in (3, 900):
            for mem in ((None, "64k") if mult <= 8 else (None,)):
                runs.append((mult, vocab, mem))
    # vocabularies whose cell keys exceed 2^24 (key = col + (n_windows*n + 1)*row): precision of the key arithmetic
    runs += [(1.1, 6000, "64k"), (3.0, 6000, None)] + ([] if ctx.quick else [(8.0, 20000, "64k"), (40.0, 6000, None)])
    rs = np.random.RandomState(ctx.seed * 1000 + {"token": 1, "timed": 2, "multi": 3, "ngram": 4}[estk])
    for k, (mult, vocab, mem) in enumerate(runs):
        if k % ctx.nshards != ctx.shard:
            continue
        if estk == "multi" and mult > 40:
            continue  # the multiset kernel re-allocates its buffers per document; volumes beyond 40x take too long
        ntok = int(mult * LIM / rad) + 7
        if estk == "multi":
            ndoc = 6  # few long documents (full buffers are re-allocated per document)
        else:
            ndoc = max(3, ntok // 220)
        cuts = np.sort(rs.randint(0, ntok, size=ndoc - 1))
        toks = rs.randint(0, vocab, size=ntok)
        if vocab > 100:
            toks = np.minimum(toks, rs.randint(0, vocab, size=ntok))  # skewed
        if vocab > 5000:
            # events concentrated in the highest rows, neighbouring columns populated (largest keys)
            toks = vocab - 1 - np.minimum(rs.randint(0, 80, size=ntok), rs.randint(0, 80, size=ntok))
        docs = [[int(x) for x in seg] for seg in np.split(toks, cuts)]
        wins = R.expand(["directional"])
        kw = dict(window_radii=rad, normalize_windows=False)
        if mem:
            kw["coo_initial_memory"] = mem
        if estk == "ngram":
            kw["ngram_size"] = 1
        conv = {"token": lambda d: d, "ngram": lambda d: d, "timed": lambda d: [[(t, float(i)) for i, t in enumerate(x)] for x in d], "multi": lambda d: [[[t] for t in x] for x in d if len(x)]}[estk]
        if estk == "multi":
            docs = [d for d in docs if len(d)]
        case = {"est": estk, "tokens": int(ntok), "vocab": vocab, "memory": mem or "default", "radius": rad, "docs": len(docs), "multiple_of_threshold": mult, "rng": [ctx.seed, k]}
        cid = "volume:%s:%s:%s:%s" % (estk, mult, vocab, mem)
        ctx.begin(cid, case)
        t0 = time.time()
        try:
            est = cls(**kw)
            M = est.fit_transform(conv(docs))
            td = dict(est.token_label_dictionary_)
            seqs = [[td[t] for t in d] for d in docs]
            n = len(td)
            if vocab > 5000:
                # full dictionary (most tokens unused) so that row/column indices - and cell keys - are large
                est = cls(token_dictionary={t: t for t in range(vocab)}, **kw)
                M = est.fit_transform(conv(docs))
                td = dict(est.token_label_dictionary_)
                seqs = [[td[t] for t in d] for d in docs]
                n = len(td)
            ref = R.flat_counts_sparse(seqs, n, wins, [rad, rad])
            events = R.count_events(seqs, wins, [rad, rad])
            case.update(events_per_window=[int(e) for e in events], distinct_cells=int(ref.nnz), coo_sizes=[int(x) for x in est._coo_sizes],
                        events_over_threshold=round(events[0] / LIM, 2), cells_over_buffer=round(float(ref.nnz) / 2 / max(1, int(est._coo_sizes[0])), 2),
                        largest_cell_key=int((2 * n + 1) * (n - 1) + 2 * n - 1))
            def rows_of(e, full):
                if estk != "ngram":
                    return full
                inv = {str(t): i for t, i in td.items()}
                rws = sorted(e.ngram_label_dictionary_.items(), key=lambda kv: kv[1])
                return full[[inv[lab] for lab, _ in rws]]

            full_ref = ref
            ref = rows_of(est, full_ref)
            Dm = (M.astype(np.int64).tocsr() - ref).tocsr() if M.shape == ref.shape else None
            if Dm is None:
                raise AssertionError("shape %s vs reference %s" % (M.shape, ref.shape))
            Dm.eliminate_zeros()
            D = Dm.data
            ok1 = M.shape == ref.shape and Dm.nnz == 0
            # fit on 1/30 of the corpus, transform the whole (buffers are sized at fit; chunking must follow the new corpus)
            small = docs[: max(1, len(docs) // 30)]
            nt2 = [1, 3, 2, 5][k % 4]
            case["transform_n_threads"] = nt2
            est2 = cls(token_dictionary={t: i for t, i in td.items()}, n_threads=nt2, **kw)
            est2.fit(conv(small))
            M2 = est2.transform(conv(docs)).astype(np.int64).tocsr()
            ref2 = rows_of(est2, full_ref)  # n-gram rows are those known at fit time
            if M2.shape == ref2.shape:
                D2m = (M2 - ref2).tocsr()
                D2m.eliminate_zeros()
                D2 = D2m.data
                ok2 = D2m.nnz == 0
            else:
                D2, ok2 = np.ones(1), False
        except Exception as e:
            ctx.end(cid)
            ctx.violation("C04/%s/volume/raises/%s" % (NAMES[estk], type(e).__name__), "%s: %s" % (type(e).__name__, str(e)[:160]), case, None, sig=cid)
            continue
        ctx.end(cid)
        ctx.count("volume_runs")
        case["fit_s"] = round(time.time() - t0, 1)
        if k < 3:
            ctx.sample(case)
        regime = "few-cells" if vocab <= 5 else ("many-cells" if vocab <= 5000 else "keys-beyond-2^24")
        if not ok1:
            ctx.violation("C04/%s/volume/fit_transform/%s/%s" % (NAMES[estk], "events-lost" if D.sum() < 0 else "events-duplicated-or-misplaced", regime),
                          "%.1fx threshold, %d distinct cells, vocabulary %d, memory %s: %d cells differ, net %d events" % (mult, case["distinct_cells"], vocab, case["memory"], int(len(D)), int(D.sum())), case, None, sig=cid)
            continue
        if not ok2:
            ctx.violation("C04/%s/volume/transform-of-larger-corpus/%s/%s" % (NAMES[estk], "events-lost" if D2.sum() < 0 else "events-duplicated-or-misplaced", regime),
                          "fit on 1/30, transform whole with n_threads=%d (%.1fx threshold): %d cells differ, net %d events" % (nt2, mult, int(len(D2)), int(D2.sum())), case, None, sig=cid)
            continue
        ctx.ok(cid, mult > 1)


def replay_any(ctx, c):
    if "tokens" in c:
        print("volume cases are replayed by re-running the part with the same seed: ./check C04 quick (VERIF_SEED=%s)" % c.get("rng"))
        return
    return check_shadow(ctx, c)


PARTS = {"shadow": run_shadow, "jitlow": run_jitlow, "grid": run_grid, "volume": run_volume}
CHECKS = {"shadow": replay_any, "jitlow": replay_any, "grid": replay_any, "volume": replay_any}
