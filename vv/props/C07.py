"""C07 — the exact transport plan is a feasible, optimal coupling."""
import numpy as np

from vv.mon import plan as PL

ID = "C07"
LEVEL = "exploration"
TECHNIQUE = "runtime monitoring: postcondition contract (icontract) on every transport_plan call — direct and intercepted inside WassersteinVectorizer — judged by a solver-free residual-graph certificate (Bellman-Ford potentials / negative-cycle cancelling); cost-orientation check on intercepted operands"
LEVEL_TEXT = ("transport_plan is called on generated problems (1xm, nx1, n>m, n<m, zero-mass and 1e-9 entries, tied / zero / rank-one costs, C and F "
              "order) in JIT and interpreted mode, and every plan computed *inside* WassersteinVectorizer fits/transforms is intercepted in "
              "interpreted mode. Each plan is checked for sign, marginals (1e-9) and optimality: no negative cycle in its residual graph is a proof "
              "of optimality for that instance (the potentials are the dual certificate); otherwise cancelling the cycles yields an explicitly "
              "cheaper feasible plan and the saving is compared with the 1e-7 relative clause. Intercepted cost matrices are checked to be "
              "metric(sample_i, reference_j) in that orientation. Held = no violation on the executions produced.")
LEVEL_NOTE = "The certificate is exact up to float64 rounding (relaxation tolerance 1e-13*(1+max C)); scipy HiGHS is logged as a second opinion only."
RULE = ("case = (p, q, cost) resp. (Wasserstein fit/transform configuration); non-trivial when n,m >= 2 and the cost matrix is not constant; "
        "distinct = hash of the problem")
ASSUMPTIONS = [
    "violation iff a constructively cheaper feasible plan saves more than 1e-7*<P,C> + 1e-12, a marginal is off by > 1e-9, or an entry < -1e-12",
    "in-situ: the reference vectors are passed explicitly so that the harness knows which operand is the reference",
]
MIN_NONTRIVIAL = {"quick": 300, "thorough": 3000}
REQUIRED = {"quick": {"plans_beyond_65536_arcs": 4, "plans_direct": 600, "plans_in_situ": 150, "contract_evaluations": 150, "orientation_checks": 150, "certified_optimal": 600},
            "thorough": {"plans_beyond_65536_arcs": 30, "plans_direct": 8000, "plans_in_situ": 1500, "contract_evaluations": 1500, "orientation_checks": 1500, "certified_optimal": 8000}}


def plan(tier, seed):
    q = tier == "quick"
    return [
        {"part": "direct", "mode": "JIT", "shards": 3 if q else 8, "weight": 3},
        {"part": "direct", "mode": "PY", "shards": 4 if q else 8},
        {"part": "insitu", "mode": "PY", "shards": 5 if q else 8, "weight": 2},
    ]


def gen_problem(r, big):
    shape = r.choice(["1xm", "nx1", "n>m", "n<m", "sq", "sq"])
    hi = 80 if big else 12
    a, b = r.randint(2, hi), r.randint(2, max(2, hi * 3 // 4))
    n, m = {"1xm": (1, a), "nx1": (a, 1), "n>m": (max(a, b) + 1, min(a, b)), "n<m": (min(a, b), max(a, b) + 1), "sq": (a, a)}[shape]
    alpha = r.choice([0.2, 1.0, 5.0])
    p = [r.gammavariate(alpha, 1.0) + 1e-300 for _ in range(n)]
    q = [r.gammavariate(alpha, 1.0) + 1e-300 for _ in range(m)]
    if n > 1 and r.random() < 0.3:
        p[r.randrange(n)] = 0.0
    if m > 1 and r.random() < 0.2:
        q[r.randrange(m)] = 1e-9 * sum(q)
    if n > 2 and r.random() < 0.15:
        p = [x * (1e6 if i == 0 else 1.0) for i, x in enumerate(p)]
    sp, sq = sum(p), sum(q)
    p = [x / sp for x in p]
    q = [x / sq for x in q]
    kind = r.choice(["cont", "cont", "int", "zeros", "rank1", "metric", "const", "allzero"])
    if kind == "cont":
        C = [[r.random() for _ in range(m)] for _ in range(n)]
    elif kind == "int":
        C = [[float(r.randint(0, 3)) for _ in range(m)] for _ in range(n)]
    elif kind == "zeros":
        C = [[r.random() if r.random() < 0.5 else 0.0 for _ in range(m)] for _ in range(n)]
    elif kind == "rank1":
        x, y = [r.random() for _ in range(n)], [r.random() for _ in range(m)]
        C = [[x[i] * y[j] for j in range(m)] for i in range(n)]
    elif kind == "metric":
        x, y = [r.uniform(-1, 1) for _ in range(n)], [r.uniform(-1, 1) for _ in range(m)]
        C = [[abs(x[i] - y[j]) for j in range(m)] for i in range(n)]
    elif kind == "allzero":
        C = [[0.0] * m for _ in range(n)]
    else:
        C = [[0.5] * m for _ in range(n)]
    return {"p": p, "q": q, "C": C, "order": r.choice(["C", "F", "T"]), "kind": kind, "shape": shape}


def gen_big(r):
    """More than 2^16 arcs (index arithmetic of the arc <-> cell mapping)."""
    n, m = r.choice([(257, 256), (300, 300), (64, 1100), (1030, 64)])
    rs = np.random.RandomState(r.randrange(10**6))
    p = rs.dirichlet(np.ones(n))
    q = rs.dirichlet(np.ones(m))
    x, y = rs.rand(n, 2), rs.rand(m, 2)
    C = np.sqrt(((x[:, None, :] - y[None, :, :]) ** 2).sum(-1))
    return {"p": p.tolist(), "q": q.tolist(), "C": np.round(C, 6).tolist(), "order": "C", "kind": "metric-big", "shape": "%dx%d" % (n, m)}


def judge(ctx, where, p, q, C, P, case, sigextra=None):
    """Shared verdict for one plan.  Returns True if it held."""
    cert = PL.certify(p, q, C, P)
    key = "C07/transport_plan/%s/" % where

    def viol(clause, what):
        ctx.violation(key + clause, what, case, cert, sig=sigextra)

    if not cert["shape_ok"]:
        viol("shape", "plan shape %s for p %s, q %s" % (np.shape(P), np.shape(p), np.shape(q)))
        return False
    if not cert["finite"]:
        viol("not-finite", "plan has non-finite entries")
        return False
    if cert["neg"] < -1e-12:
        viol("negative-entry", "plan entry %g < 0" % cert["neg"])
        return False
    if cert["row_err"] > 1e-9 or cert["col_err"] > 1e-9:
        which = "row" if cert["row_err"] > 1e-9 else "column"
        viol("marginal-%s" % which, "marginals off by %g (rows) / %g (columns)" % (cert["row_err"], cert["col_err"]))
        return False
    if cert["saving"] > 1e-7 * abs(cert["cost"]) + 1e-12:
        viol("suboptimal", "a feasible plan cheaper by %g exists (cost %g -> %g, %d residual cycles cancelled)" % (
            cert["saving"], cert["cost"], cert["cheaper_plan_cost"], cert["cancelled_cycles"]))
        return False
    if cert["certified"]:
        ctx.count("certified_optimal")
    else:
        ctx.count("certificate:" + cert["certificate"])
    return True


def check_direct(ctx, c):
    from vectorizers.linear_optimal_transport import transport_plan

    p = np.array(c["p"], dtype=np.float64)
    q = np.array(c["q"], dtype=np.float64)
    C = np.array(c["C"], dtype=np.float64)
    if c["order"] == "F":
        Cin = np.asfortranarray(C)
    elif c["order"] == "T":
        Cin = np.ascontiguousarray(C.T).T  # a transposed view, as the vectorizer passes
    else:
        Cin = np.ascontiguousarray(C)
    p0, q0, C0 = p.copy(), q.copy(), C.copy()
    sig = hash(str(c)) % 10**12
    try:
        P = transport_plan(p, q, Cin)
    except Exception as e:
        ctx.violation("C07/transport_plan/direct/raises/%s" % type(e).__name__, "transport_plan raised %s: %s" % (type(e).__name__, str(e)[:160]), c, None, sig=sig)
        return
    ctx.count("plans_direct")
    if not (np.array_equal(p, p0) and np.array_equal(q, q0) and np.array_equal(np.asarray(Cin), C0)):
        ctx.violation("C07/transport_plan/direct/modifies-input", "transport_plan changed p, q or cost", c, None, sig=sig)
        return
    if judge(ctx, "direct", p0, q0, C0, P, c, sig):
        n, m = C.shape
        ctx.ok(sig, n >= 2 and m >= 2 and c["kind"] not in ("const", "allzero"))
        if ctx.mode == "JIT" and n * m <= 36:
            ctx.result("plan:%s" % sig, {"cost": round(float((np.asarray(P) * C0).sum()), 9)})


# ------------------------------------------------------------------ in situ
def gen_insitu(r):
    npts = r.randint(4, 14)
    dim = r.choice([2, 3, 5])
    nrows = r.randint(2, 6)
    nref = r.choice([1, 2, 4, 7, 12])
    return {"npts": npts, "dim": dim, "nrows": nrows, "nref": nref, "metric": r.choice(["cosine", "euclidean"]),
            "input_method": r.choice(["spmatrix", "spmatrix", "lil"]), "density": r.choice([0.3, 0.6, 1.0]), "seed": r.randrange(10**6)}


def check_insitu(ctx, c):
    try:
        import icontract
    except ImportError:
        icontract = None
    import scipy.sparse as sp
    import vectorizers as V
    import vectorizers.linear_optimal_transport as lot

    rs = np.random.RandomState(c["seed"])
    npts, dim = c["npts"], c["dim"]
    vec = rs.normal(size=(npts, dim)) + (3.0 if c["metric"] == "cosine" else 0.0) * (rs.rand(1, dim) > 0.5)
    X = sp.random(c["nrows"], npts, density=c["density"], random_state=rs.randint(1 << 30), format="lil")
    for i in range(c["nrows"]):
        if len(X.rows[i]) < 1:
            X[i, rs.randint(npts)] = rs.rand() + 0.1
    X = X.tocsr()
    Rv = rs.normal(size=(c["nref"], dim)) + (3.0 if c["metric"] == "cosine" else 0.0) * (rs.rand(1, dim) > 0.5)
    Rd = rs.dirichlet(np.ones(c["nref"]))
    sig = hash(str(c)) % 10**12
    state = {"cpd": None, "n": 0, "bad": 0}
    orig_tp, orig_cpd = lot.transport_plan, lot.chunked_pairwise_distance

    class PlanBroken(Exception):
        pass

    def pairwise(A, B):
        A, B = np.asarray(A, float), np.asarray(B, float)
        if c["metric"] == "euclidean":
            return np.sqrt(((A[:, None, :] - B[None, :, :]) ** 2).sum(-1))
        na, nb = np.linalg.norm(A, axis=1), np.linalg.norm(B, axis=1)
        return 1.0 - (A @ B.T) / (na[:, None] * nb[None, :])

    def cpd(data1, data2, dist=None, chunk_size=4):
        out = orig_cpd(data1, data2, dist=dist, chunk_size=chunk_size) if dist is not None else orig_cpd(data1, data2)
        state["cpd"] = (np.array(data1), np.array(data2))
        return out

    def plan_ok(p, q, cost, result):
        state["n"] += 1
        ctx.count("contract_evaluations")
        ctx.count("plans_in_situ")
        good = judge(ctx, "in-situ", p, q, cost, result, c, sig)
        # orientation: cost[i, j] must be metric(sample_i, reference_j); q belongs to the reference
        if state["cpd"] is not None:
            d1, d2 = state["cpd"]
            ref_is_2 = d2.shape == refv.shape and np.allclose(d2, refv)
            ref_is_1 = d1.shape == refv.shape and np.allclose(d1, refv)
            sample = d1 if ref_is_2 and not (ref_is_1 and d1.shape[0] != len(p)) else d2
            if ref_is_1 and ref_is_2:
                sample = d1
            if (ref_is_1 or ref_is_2) and sample.shape[0] == len(p) and len(q) == refv.shape[0]:
                exp = pairwise(sample, refv)
                ctx.count("orientation_checks")
                if np.shape(cost) != exp.shape or not np.allclose(np.asarray(cost), exp, rtol=1e-6, atol=1e-7):
                    ctx.violation("C07/transport_plan/in-situ/cost-orientation", "cost matrix passed to transport_plan is not metric(sample_i, reference_j)",
                                  c, {"cost_shape": list(np.shape(cost)), "expected_shape": list(exp.shape),
                                      "max_diff_direct": float(np.max(np.abs(np.asarray(cost) - exp))) if np.shape(cost) == exp.shape else None}, sig=sig)
                    good = False
            if abs(float(np.sum(p)) - 1.0) > 1e-9 or abs(float(np.sum(q)) - 1.0) > 1e-9:
                ctx.violation("C07/transport_plan/in-situ/unnormalised-marginals", "transport_plan was called with distributions that do not sum to 1", c,
                              {"sum_p": float(np.sum(p)), "sum_q": float(np.sum(q))}, sig=sig)
                good = False
        if not good:
            state["bad"] += 1
        return True  # record-and-continue: the monitor must not alter the observed execution

    if icontract is not None:
        contracted = icontract.ensure(plan_ok, error=PlanBroken)(orig_tp)
    else:  # same postcondition as a plain wrapper
        def contracted(p, q, cost, max_iter=100000):
            result = orig_tp(p, q, cost, max_iter)
            plan_ok(p, q, cost, result)
            return result
        ctx.count("icontract_unavailable_plain_wrapper")
    lot.transport_plan, lot.chunked_pairwise_distance = contracted, cpd
    try:
        kw = dict(method="LOT_exact", metric=c["metric"], n_components=min(c["nrows"], c["nref"] * dim), random_state=3, input_method=c["input_method"])
        est = V.WassersteinVectorizer(**kw)
        # the vectorizer l2-normalises vectors for cosine; the reference passed in is used as given
        refv = Rv / np.linalg.norm(Rv, axis=1, keepdims=True) if c["metric"] == "cosine" else Rv
        if c["input_method"] == "spmatrix":
            est.fit(X, vectors=vec, reference_vectors=refv, reference_distribution=Rd)
            est.transform(X[::-1], vectors=vec)
        else:
            L = X.tolil()
            dl = [np.array(r_, dtype=float) for r_ in L.data]
            vl = [np.ascontiguousarray(vec[r_]) for r_ in L.rows]
            est.fit(dl, vectors=vl, reference_vectors=refv, reference_distribution=Rd)
            est.transform([d.copy() for d in dl][::-1], vectors=vl[::-1])
    except Exception as e:
        ctx.count("insitu_driver_exception:%s" % type(e).__name__)
        ctx.note("in-situ driver raised %s: %s" % (type(e).__name__, str(e)[:200]))
    finally:
        lot.transport_plan, lot.chunked_pairwise_distance = orig_tp, orig_cpd
    if state["n"] and not state["bad"]:
        ctx.ok(sig, c["nref"] >= 2)


def run_direct(ctx):
    n = ctx.pick(900, 9000) if ctx.mode == "JIT" else ctx.pick(600, 6000)
    if ctx.mode == "JIT":
        for i in ctx.indices(ctx.pick(6, 40)):
            c = gen_big(ctx.rng("big", i))
            ctx.count("plans_beyond_65536_arcs")
            check_direct(ctx, c)
    for i in ctx.indices(n):
        c = gen_problem(ctx.rng(i), big=(not ctx.quick and ctx.mode == "JIT" and i % 3 == 0))
        if i < 2:
            ctx.sample(c)
        check_direct(ctx, c)


def run_insitu(ctx):
    for i in ctx.indices(ctx.pick(100, 800)):
        c = gen_insitu(ctx.rng(i))
        if i < 2:
            ctx.sample(c)
        check_insitu(ctx, c)


PARTS = {"direct": run_direct, "insitu": run_insitu}
CHECKS = {"direct": check_direct, "insitu": check_insitu}
