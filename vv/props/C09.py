"""C09 — byte-pair encodings are lossless, reproducible and within the vocabulary budget."""
import itertools

import numpy as np

ID = "C09"
LEVEL = "exploration"
TECHNIQUE = "runtime monitoring: decode-and-compare oracle on every encoding (fit_transform and transform), exhaustive over all 1-2 string corpora on a 2-letter alphabet up to a length bound, plus random unicode corpora, in interpreted, JIT and bounds-checked mode"
LEVEL_TEXT = ("Every encoding the real vectorizer returns is decoded through the fitted tokens_ and compared with the input string; transform is "
              "compared with fit_transform on the training strings; tokens_/code_list_ consistency, the vocabulary budget and the matrix/tokens "
              "views are checked. The corpus space 'one or two strings over {a,b} up to length 5 (quick) / 6 (thorough)' is enumerated completely "
              "in interpreted mode (exhaustive: true applies to that sub-space only) and each fitted model then encodes all strings over {a,b,c} "
              "up to a bound; JIT and bounds-checked runs take a stratified sample plus all length-0/1/collapsing cases, where the uint32 loop "
              "variable and uninitialised reads exist. Held = no violation on the executions produced.")
LEVEL_NOTE = "The harness decides 'nothing to learn' (no adjacent pair occurs twice) from the raw strings; only then is a ValueError from fit accepted as rejected input."
RULE = ("case = (training corpus, test strings, max_vocab_size, min_token_occurrence, max_char_code); non-trivial when at least one merge was "
        "learned and some string is encoded with a learned code; distinct = the case tuple")
EXHAUSTIVE_NOTE = "all corpora of 1 or 2 strings over {a,b} with length <= 5 (quick) / <= 6 (thorough), x max_vocab_size in {1,3,50}, interpreted mode; exhaustive for that sub-space only"
ASSUMPTIONS = [
    "characters above the fitted max_char_code_ decode as chr(0) (property statement)",
    "a ValueError from fit is accepted only when no adjacent pair of characters occurs twice in the corpus (nothing can be learned)",
    "changing the trainer's tie-break rule keeps every clause true and is not detectable here by design",
]
MIN_NONTRIVIAL = {"quick": 500, "thorough": 3000}
REQUIRED = {"quick": {"fits": 3000, "decoded_fit": 5000, "decoded_transform": 100000, "jit_len01": 20, "long_strings": 4},
            "thorough": {"fits": 20000, "decoded_fit": 40000, "decoded_transform": 1000000, "jit_len01": 100, "long_strings": 6}}


def plan(tier, seed):
    q = tier == "quick"
    return [
        {"part": "exh", "mode": "PY", "shards": 8 if q else 14, "weight": 5},
        {"part": "exh", "mode": "JIT", "shards": 2 if q else 4, "args": {"stride": 10}, "env": {"NUMBA_NUM_THREADS": "16"}, "weight": 6},
        {"part": "exh", "mode": "BC", "shards": 1 if q else 2, "args": {"stride": 25}, "env": {"NUMBA_NUM_THREADS": "1"}, "weight": 6},
        {"part": "rand", "mode": "PY", "shards": 2 if q else 4},
        {"part": "rand", "mode": "JIT", "shards": 2 if q else 4, "env": {"NUMBA_NUM_THREADS": "1"}, "weight": 6},
        {"part": "rand", "mode": "BC", "shards": 1 if q else 2, "env": {"NUMBA_NUM_THREADS": "16"}, "weight": 6},
    ]


def all_strings(alpha, maxlen, minlen=0):
    out = []
    for L in range(minlen, maxlen + 1):
        out += ["".join(p) for p in itertools.product(alpha, repeat=L)]
    return out


def nothing_to_learn(corpus):
    seen = set()
    for s in corpus:
        for a, b in zip(s, s[1:]):
            if (a, b) in seen:
                return False
            seen.add((a, b))
    return True


def decode(seq, mcc, tokens):
    return "".join(chr(int(c)) if c <= mcc else tokens[int(c) - mcc - 1] for c in seq)


_NAMED = {"ascii": 127, "common": 2047, "bmp": 65535, "unicode": 1114111}


def check_case(ctx, c):
    from vectorizers import BytePairEncodingVectorizer as B

    corpus, mv, mto, mccp = c["corpus"], c["max_vocab_size"], c["min_token_occurrence"], c["max_char_code"]
    test = c.get("test")
    if test is None:
        test = all_strings(c["test_alpha"], c["test_maxlen"])
    sig = (tuple(corpus), mv, mto, mccp, c.get("test_maxlen"), hash(tuple(c.get("test") or ())))
    ok = [True]

    def viol(clause, what, detail=None):
        ok[0] = False
        ctx.violation("C09/BytePairEncodingVectorizer/%s" % clause, what, {k: v for k, v in c.items()}, detail, sig=sig)

    b = B(max_vocab_size=mv, min_token_occurrence=mto, max_char_code=mccp, return_type="sequences")
    ntl = nothing_to_learn(corpus)
    try:
        enc = b.fit_transform(list(corpus))
    except ValueError as e:
        if ntl:
            ctx.skip("rejected input: nothing to learn (no adjacent pair occurs twice)")
            return
        viol("fit-raises-on-learnable-corpus/ValueError", "fit raised ValueError on a corpus with a repeated pair: %s" % str(e)[:120])
        return
    except Exception as e:
        viol("fit-raises/%s" % type(e).__name__, "fit raised %s: %s" % (type(e).__name__, str(e)[:160]))
        return
    ctx.count("fits")
    tokens = [str(t) for t in b.tokens_]
    codes = [(int(p), int(q)) for p, q in b.code_list_]
    mcc = int(b.max_char_code_)
    want_mcc = max([_NAMED.get(mccp, mccp) if not isinstance(mccp, int) else mccp] + [ord(ch) for s in corpus for ch in s])
    if mcc != want_mcc:
        viol("max_char_code", "max_char_code_=%d, expected max(requested, largest training code point)=%d" % (mcc, want_mcc))
        return
    if ntl:
        # fit succeeded although nothing could be learned: the model must still be consistent; judged below
        ctx.count("fit-accepted-nothing-to-learn")
    if len(tokens) > mv:
        viol("vocabulary-budget", "%d tokens learned, max_vocab_size=%d" % (len(tokens), mv), tokens[:10])
        return
    if len(tokens) != len(codes):
        viol("tokens-codes-length", "len(tokens_) != len(code_list_)")
        return
    for i, (p, q) in enumerate(codes):
        okp = all((0 <= x <= mcc) or (mcc < x <= mcc + i) for x in (p, q))  # a pair may only use earlier codes
        if not okp or decode([p], mcc, tokens) + decode([q], mcc, tokens) != tokens[i]:
            viol("token-is-not-concatenation-of-its-pair", "tokens_[%d]=%r but code pair %r" % (i, tokens[i], (p, q)), {"tokens": tokens[:12], "codes": codes[:12]})
            return
    used_learned = False
    for s, e in zip(corpus, enc):
        e = [int(x) for x in e]
        ctx.count("decoded_fit")
        if any(x < 0 or x > mcc + len(tokens) for x in e):
            viol("fit-encoding-has-invalid-code/len%s" % ("0" if len(s) == 0 else "1" if len(s) == 1 else "2+"),
                 "fit_transform encoding of %r contains a code outside the vocabulary" % s[:40], {"encoding": e[:20], "max_valid": mcc + len(tokens)})
            return
        if decode(e, mcc, tokens) != s:
            viol("fit-encoding-not-lossless", "decoding the fit_transform encoding of %r gives %r" % (s[:40], decode(e, mcc, tokens)[:40]), {"encoding": e[:30], "tokens": tokens[:10]})
            return
        used_learned |= any(x > mcc for x in e)
    try:
        tr = b.transform(list(corpus))
    except Exception as e:
        viol("transform-raises/%s" % type(e).__name__, "transform(training strings) raised %s: %s" % (type(e).__name__, str(e)[:160]))
        return
    for s, e1, e2 in zip(corpus, enc, tr):
        l1, l2 = [int(x) for x in e1], [int(x) for x in e2]
        if l1 != l2:
            bound = "vocab-limit-binding" if len(tokens) == mv else "vocab-limit-slack"
            lk = "len%s" % ("0" if len(s) == 0 else "1" if len(s) == 1 else "2+")
            viol("transform-differs-from-fit_transform/%s/%s" % (bound, lk), "transform re-encodes training string %r to %r, fit_transform gave %r" % (s[:30], l2[:20], l1[:20]),
                 {"tokens": tokens[:10], "codes": codes[:10]})
            return
    # unseen strings
    if test:
        try:
            tt = b.transform(list(test))
        except Exception as e:
            viol("transform-raises/%s" % type(e).__name__, "transform(test strings) raised %s: %s" % (type(e).__name__, str(e)[:160]))
            return
        if len(tt) != len(test):
            viol("transform-row-count", "%d encodings for %d strings" % (len(tt), len(test)))
            return
        ctx.count("decoded_transform", len(test))
        if ctx.mode != "PY":
            ctx.count("jit_len01", sum(1 for s in test if len(s) <= 1))
        for s, e in zip(test, tt):
            e = [int(x) for x in e]
            exp = "".join(ch if ord(ch) <= mcc else chr(0) for ch in s)
            lk = "len%s" % ("0" if len(s) == 0 else "1" if len(s) == 1 else "2+")
            if any(x < 0 or x > mcc + len(tokens) for x in e):
                viol("transform-encoding-has-invalid-code/%s" % lk, "transform encoding of %r contains a code outside the vocabulary" % s[:40], {"encoding": e[:20]})
                return
            if decode(e, mcc, tokens) != exp:
                viol("transform-encoding-not-lossless/%s" % lk, "decoding the transform encoding of %r gives %r" % (s[:40], decode(e, mcc, tokens)[:40]), {"encoding": e[:30], "tokens": tokens[:10]})
                return
    # tokens / matrix views (fresh estimators with the same parameters; training is deterministic)
    if c.get("views", True):
        bt = B(max_vocab_size=mv, min_token_occurrence=mto, max_char_code=mccp, return_type="tokens")
        bm = B(max_vocab_size=mv, min_token_occurrence=mto, max_char_code=mccp, return_type="matrix")
        try:
            ft_t = bt.fit_transform(list(corpus))
            ft_m = bm.fit_transform(list(corpus))
            tsub = [s for s in (test or [])][:200]
            tr_t = bt.transform(list(corpus) + tsub)
            tr_m = bm.transform(list(corpus) + tsub)
        except Exception as e:
            viol("views-raise/%s" % type(e).__name__, "tokens/matrix return types raised %s: %s" % (type(e).__name__, str(e)[:160]))
            return
        if [str(t) for t in bt.tokens_] != tokens or [(int(p), int(q)) for p, q in bm.code_list_] != codes:
            viol("training-not-deterministic", "the same corpus and parameters trained a different model")
            return
        allenc = [[int(x) for x in e] for e in enc] + [[int(x) for x in e] for e in (tt[: len(tsub)] if test else [])]
        for e, tk in zip(allenc[: len(corpus)], ft_t):
            if [decode([x], mcc, tokens) for x in e] != [str(t) for t in tk]:
                viol("tokens-view-differs", "'tokens' output of fit_transform is not the code strings of 'sequences'")
                return
        for e, tk in zip(allenc, tr_t):
            if [decode([x], mcc, tokens) for x in e] != [str(t) for t in tk]:
                viol("tokens-view-differs", "'tokens' output of transform is not the code strings of 'sequences'")
                return
        cl = {int(k): int(v) for k, v in bm.column_label_dictionary_.items()}
        for name, M, encs in (("fit_transform", ft_m, allenc[: len(corpus)]), ("transform", tr_m, allenc)):
            M = M.toarray()
            if M.shape[0] != len(encs) or (M.shape[1] != len(cl) and M.size):
                viol("matrix-view-shape/%s" % name, "'matrix' output of %s has shape %s for %d strings and %d fitted columns" % (name, M.shape, len(encs), len(cl)))
                return
            for i, e in enumerate(encs):
                exp = np.zeros(len(cl))
                for x in e:
                    if x in cl:
                        exp[cl[x]] += 1
                if M.size and not np.array_equal(M[i], exp):
                    viol("matrix-view-differs/%s" % name, "'matrix' row %d of %s is not the code histogram of its sequence" % (i, name), {"row": M[i], "expected": exp})
                    return
    if ok[0]:
        ctx.ok(sig, bool(tokens) and used_learned and not ntl)


# ----------------------------------------------------------------------------- parts
def run_exh(ctx):
    L = ctx.pick(5, 6)
    S = all_strings("ab", L)
    corpora = [[s] for s in S] + [[s, t] for s in S for t in S]
    if not ctx.quick:
        r = ctx.rng("triples")
        corpora += [[r.choice(S), r.choice(S), r.choice(S)] for _ in range(4000)]
    stride = int(ctx.args.get("stride", 1))
    tl = ctx.pick(5, 7) if ctx.mode == "PY" else ctx.pick(6, 8)
    n = 0
    for idx in ctx.indices(len(corpora)):
        corpus = corpora[idx]
        # compiled modes: stratified sample + every corpus containing a length-0/1 string or collapsing to one code
        if stride > 1:
            special = any(len(s) <= 1 for s in corpus) or any(len(set(s)) == 1 and len(s) in (2, 4) for s in corpus)
            if not (idx % stride == 0 or (special and idx % 3 == 0)):
                continue
        for mv in (1, 3, 50):
            c = {"corpus": corpus, "max_vocab_size": mv, "min_token_occurrence": 1, "max_char_code": 0,
                 "test_alpha": "abc", "test_maxlen": tl if (idx % 5 == 0 or stride > 1) else 3, "views": idx % 4 == 0}
            if n < 2 and mv == 3:
                ctx.sample(c)
            n += 1
            check_case(ctx, c)


UNI = ["ab", "abc", "aé中", "ab\U0001F600", "xyz ", "01"]


def gen_rand(r):
    alpha = r.choice(UNI)
    def s():
        k = r.choice(["rand", "rand", "empty", "one", "run", "periodic", "two"])
        if k == "empty":
            return ""
        if k == "one":
            return r.choice(alpha)
        if k == "two":
            return r.choice(alpha) + r.choice(alpha)
        if k == "run":
            return r.choice(alpha) * r.choice([2, 3, 4, 7, 8, 16, 33])
        if k == "periodic":
            p = "".join(r.choice(alpha) for _ in range(r.randint(1, 3)))
            return p * r.randint(1, 12)
        return "".join(r.choice(alpha) for _ in range(r.randint(1, 60)))
    corpus = [s() for _ in range(r.randint(1, 6))]
    test = [s() for _ in range(r.randint(1, 8))] + ["", r.choice(alpha), "q" + r.choice(alpha) + "中", "\U0001F601" * 2 + alpha]
    return {"corpus": corpus, "test": test, "max_vocab_size": r.choice([1, 2, 3, 5, 10, 50]), "min_token_occurrence": r.choice([1, 1, 2, 4]),
            "max_char_code": r.choice([0, 0, "ascii", 200, "bmp"]), "views": True}


def run_rand(ctx):
    n = {"PY": ctx.pick(600, 5000), "JIT": ctx.pick(500, 4000), "BC": ctx.pick(200, 1500)}[ctx.mode]
    if ctx.mode == "JIT" and ctx.shard == 0:
        # strings longer than 2^16 codes (index width of the compiled kernels)
        r = ctx.rng("long")
        for L in (65535, 65536, 65537, 70000) + (() if ctx.quick else (131073, 200000)):
            s_ = "".join(r.choice("abcd") for _ in range(L))
            c = {"corpus": [s_, "abcabd" * 5], "test": [s_[: L // 2], s_, "", "a"], "max_vocab_size": 20, "min_token_occurrence": 1, "max_char_code": 0, "views": False}
            ctx.count("long_strings")
            check_case(ctx, c)
    for i in ctx.indices(n):
        c = gen_rand(ctx.rng(i))
        if i < 2:
            ctx.sample(c)
        check_case(ctx, c)


PARTS = {"exh": run_exh, "rand": run_rand}
CHECKS = {"exh": check_case, "rand": check_case}
