"""C19 — sliding windows contain exactly the documented in-range elements.

Oracle: numpy.lib.stride_tricks.sliding_window_view on a padded copy built by the
harness + direct differences (DESIGN §4 C19)."""
import math

import numpy as np
from numpy.lib.stride_tricks import sliding_window_view

ID = "C19"
LEVEL = "exploration"
TECHNIQUE = "runtime monitoring: reference-model oracle (sliding_window_view / direct differences) over generated (L,width,stride,sample,pad,kernel) combinations in JIT, bounds-checked and interpreted mode, with a sentinel-guarded parent buffer"
LEVEL_TEXT = ("The real SlidingWindowTransformer / SequentialDifferenceTransformer are run on generated combinations that sit on the edges the "
              "property names (width = L, stride > L, pad > width, every form of window_sample, multivariate input); each output is compared "
              "value by value with an independent construction, and the sequence is passed as a view into a buffer surrounded by 1e300 "
              "sentinels so that an out-of-range read shows up as a wrong value; an estimator fitted on integer data is then applied to float data (and the reverse). Held = no violation on the executions produced.")
LEVEL_NOTE = "Trusts numpy's sliding_window_view and float64 arithmetic; 'differences' is read as x[j+step]-x[j] for j=start,start+stride,... while j+step is inside the window."
RULE = ("case = (sequence shape, width, stride, window_sample form, pad, kernel); non-trivial when the output has >= 2 windows or a "
        "non-default sample/kernel/pad; distinct = distinct (L, d, width, stride, sample, pad, kernel)")
ASSUMPTIONS = [
    "index arrays with repeated positions and position_velocity kernels are outside the judged domain (semantics not documented)",
    "the 'differences' kernel (start, step, stride) is read as all in-window differences x[j+step]-x[j], j = start, start+stride, ...",
]
MIN_NONTRIVIAL = {"quick": 100, "thorough": 1000}
REQUIRED = {"quick": {"windows_compared": 300, "diff_compared": 60, "dtype_history_checks": 100}, "thorough": {"windows_compared": 3000, "diff_compared": 500, "dtype_history_checks": 1000}}


def plan(tier, seed):
    q = tier == "quick"
    env = {"MALLOC_PERTURB_": "165"}
    return [
        {"part": "win", "mode": "JIT", "shards": 6 if q else 10, "env": env, "weight": 3},
        {"part": "win", "mode": "BC", "shards": 3 if q else 5, "env": env, "weight": 3},
        {"part": "win", "mode": "PY", "shards": 3 if q else 6, "env": env, "weight": 1},
    ]


def gen_case(r):
    multivar = r.random() < 0.2
    width = r.choice([1, 2, 3, 4, 5, 8, 13])
    pad = r.choice([0, 0, 0, 1, 3, width + 2])
    Lmin = max(1, width - 2 * pad)
    L = r.choice([Lmin, Lmin + 1, Lmin + 2, width, width + 1, 2 * width + 1, r.randint(Lmin, 60)])
    L = max(L, Lmin)
    stride = r.choice([1, 1, 2, 3, 5, L + 3])
    kind = r.choice(["none", "int", "pair", "array", "array-full-permuted", "array-reversed"])
    if kind == "none":
        smp, pos = None, list(range(width))
    elif kind == "int":
        k = r.randint(1, width)
        smp, pos = k, list(range(0, width, k))
    elif kind == "pair":
        a = r.randint(0, width - 1)
        k = r.randint(1, width)
        smp, pos = [a, k], list(range(a, width, k))
        if r.random() < 0.5:
            smp = ("tuple", a, k)
    elif kind == "array":
        n = r.randint(1, width)
        pos = r.sample(range(width), n)
        if len(pos) == 2:  # a 2-list means (start, stride); make it an ndarray instead
            smp = ("ndarray", pos)
        else:
            smp = pos if r.random() < 0.5 else ("ndarray", pos)
    elif kind == "array-full-permuted":
        pos = list(range(width))
        r.shuffle(pos)
        smp = ("ndarray", pos) if len(pos) == 2 else pos
    else:
        pos = list(range(width))[::-1]
        smp = ("ndarray", pos) if len(pos) == 2 else pos
    k = len(pos)
    kern = r.choice(["none", "none", "average", "weight", "matrix", "differences", "gaussian_weight"])
    kp = None
    if kern == "weight":
        kp = [round(r.uniform(-2, 2), 3) for _ in range(k)]
    elif kern == "matrix":
        rows = r.randint(1, 3)
        kp = [[round(r.uniform(-1, 1), 3) for _ in range(k)] for _ in range(rows)]
    elif kern == "differences":
        start = r.randint(0, max(0, k - 2))
        step = r.randint(1, max(1, k - 1 - start))
        dstride = r.randint(1, 3)
        kp = [start, step, dstride]
        if start + step > k - 1:
            kern, kp = "none", None
    elif kern == "gaussian_weight":
        kp = [r.choice([0.5, 1.0, 3.0])]
    d = r.choice([2, 3]) if multivar else 0
    vals = [[round(r.uniform(-50, 50), 4) for _ in range(d)] for _ in range(L)] if d else [round(r.uniform(-50, 50), 4) for _ in range(L)]
    dtype = r.choice(["float64", "float64", "int64", "float32"])
    if dtype == "int64":
        vals = [[int(v) for v in row] for row in vals] if d else [int(v) for v in vals]
    padv = float(r.choice([0, 7, -3])) if dtype != "int64" else r.choice([0, 7, -3])
    return {"kind": "win", "L": L, "d": d, "width": width, "stride": stride, "sample_kind": kind, "sample": smp, "pos": pos,
            "pad": pad, "pad_value": padv, "kernel": kern, "kp": kp, "dtype": dtype, "seq": vals}


def gen_diff(r):
    s = r.randint(1, 6)
    L = r.choice([s + 1, s + 2, 2 * s + 1, r.randint(s + 1, 50)])
    n = r.randint(1, 3)
    return {"kind": "diff", "stride": s, "seqs": [[round(r.uniform(-9, 9), 3) for _ in range(L if i == 0 else r.randint(s + 1, 50))] for i in range(n)]}


def _sig(c):
    if c["kind"] == "diff":
        return ("diff", c["stride"], tuple(len(s) for s in c["seqs"]))
    return (c["L"], c["d"], c["width"], c["stride"], c["sample_kind"], tuple(c["pos"]), c["pad"], c["kernel"], str(c["kp"]), c["dtype"])


def _kernel_matrix(c, k):
    kern, kp = c["kernel"], c["kp"]
    if kern == "none":
        return np.eye(k)
    if kern == "average":
        return np.full((1, k), 1.0 / k)
    if kern == "weight":
        return np.diag(np.array(kp, dtype=float))
    if kern == "matrix":
        return np.array(kp, dtype=float)
    if kern == "gaussian_weight":
        sigma = kp[0]
        xs = np.linspace(-k / 2, k / 2, k)
        return np.diag(1.0 / (sigma * 2 * np.pi) * np.exp(-((xs / sigma) ** 2) / 2.0))
    if kern == "differences":
        start, step, dstride = kp
        rows = []
        j = start
        while j + step <= k - 1:
            row = np.zeros(k)
            row[j] = -1
            row[j + step] = 1
            rows.append(row)
            j += dstride
        return np.array(rows).reshape(len(rows), k)
    raise ValueError(kern)


def _sentinel_view(arr):
    """arr copied into the middle of a larger parent filled with 1e300 (or a huge int); returns the view."""
    big = 1e300 if arr.dtype.kind == "f" and arr.dtype.itemsize == 8 else (3e38 if arr.dtype.kind == "f" else 2**62)
    parent = np.full((arr.shape[0] + 64,) + arr.shape[1:], big, dtype=arr.dtype)
    parent[32 : 32 + arr.shape[0]] = arr
    return parent[32 : 32 + arr.shape[0]], parent


def check_case(ctx, c):
    from vectorizers.transformers import SlidingWindowTransformer, SequentialDifferenceTransformer

    if c["kind"] == "diff":
        s = c["stride"]
        seqs = [np.array(x, dtype=np.float64) for x in c["seqs"]]
        try:
            out = SequentialDifferenceTransformer(stride=s).fit(seqs).transform(seqs)
        except Exception as e:
            ctx.violation("C19/SequentialDifferenceTransformer/raises", "raises %s" % type(e).__name__, c, str(e)[:300], sig=_sig(c))
            return
        ctx.count("diff_compared")
        for x, o in zip(seqs, out):
            exp = x[s:] - x[:-s]
            got = np.ravel(np.asarray(o))
            if got.shape != exp.shape:
                ctx.violation("C19/SequentialDifferenceTransformer/wrong-number-of-differences",
                              "stride=%d length=%d: %d differences returned, %d expected" % (s, len(x), got.shape[0], exp.shape[0]), c,
                              {"got_shape": list(np.asarray(o).shape), "expected": exp.shape[0]}, sig=_sig(c))
                return
            if not np.allclose(got, exp, rtol=1e-12, atol=1e-12):
                ctx.violation("C19/SequentialDifferenceTransformer/wrong-values", "differences differ from x[i+s]-x[i]", c,
                              {"got": got[:10], "expected": exp[:10]}, sig=_sig(c))
                return
        ctx.ok(_sig(c), True)
        return

    arr = np.array(c["seq"], dtype=c["dtype"])
    view, parent = _sentinel_view(arr)
    smp = c["sample"]
    if isinstance(smp, (list, tuple)) and len(smp) and smp[0] == "ndarray":
        smp = np.array(smp[1], dtype=np.int64)
    elif isinstance(smp, (list, tuple)) and len(smp) and smp[0] == "tuple":
        smp = (smp[1], smp[2])
    pos = np.array(c["pos"], dtype=int)
    k = len(pos)
    M = _kernel_matrix(c, k)
    if c["kernel"] == "none":
        kernels = None
    elif c["kernel"] == "matrix":
        kernels = [np.array(c["kp"], dtype=float)]
    elif c["kernel"] == "weight":
        kernels = [("weight", np.array(c["kp"], dtype=float))]
    elif c["kernel"] == "average":
        kernels = ["average"]
    else:
        kernels = [(c["kernel"], *c["kp"])]
    est = SlidingWindowTransformer(window_width=c["width"], window_stride=c["stride"], window_sample=smp, kernels=kernels,
                                   pad_width=c["pad"], pad_value=c["pad_value"])
    name = "SlidingWindowTransformer"
    skind = {"none": "sample-none", "int": "sample-int", "pair": "sample-pair"}.get(c["sample_kind"], "sample-" + c["sample_kind"])
    try:
        out = est.fit([view]).transform([view])[0]
    except Exception as e:
        ctx.violation("C19/%s/raises/%s/%s" % (name, skind, type(e).__name__), "raises %s" % type(e).__name__, c, str(e)[:300], sig=_sig(c))
        return
    # reference
    pad = c["pad"]
    if pad:
        padblock = np.full((pad,) + arr.shape[1:], c["pad_value"], dtype=arr.dtype)
        xp = np.concatenate([padblock, arr, padblock])
    else:
        xp = arr
    Lp = xp.shape[0]
    nwin = math.ceil((Lp - c["width"] + 1) / c["stride"])
    wins = sliding_window_view(xp, c["width"], axis=0)[:: c["stride"]]  # (nwin, [d,] width)
    if c["d"]:
        wins = np.moveaxis(wins, -1, 1)  # (nwin, width, d)
    sel = wins[:, pos].astype(np.float64)  # (nwin, k[, d])
    exp = np.einsum("rk,nk...->nr...", M, sel).reshape(sel.shape[0], -1)
    out = np.asarray(out)
    ctx.count("windows_compared", int(exp.shape[0]))
    assert exp.shape[0] == nwin
    if out.shape[0] != nwin:
        ctx.violation("C19/%s/window-count" % name, "%d windows returned, ceil((L-width+1)/stride)=%d" % (out.shape[0], nwin), c,
                      {"got_shape": list(out.shape)}, sig=_sig(c))
        return
    if out.shape != exp.shape:
        ctx.violation("C19/%s/%s/wrong-output-width" % (name, skind), "window_sample form '%s' selects %d positions, output has %s columns" % (
            c["sample_kind"], k, out.shape[1:]), c, {"got_shape": list(out.shape), "expected_shape": list(exp.shape), "window_sample_": getattr(est, "window_sample_", None)}, sig=_sig(c))
        return
    tol = 1e-9 * max(1.0, float(np.abs(exp).max()) if exp.size else 1.0) if c["dtype"] != "float32" else 1e-4
    bad = ~(np.abs(out - exp) <= tol)
    if bad.any():
        if np.any(np.abs(out[bad]) > 1e30):
            key = "C19/%s/out-of-range-read" % name
        elif k == c["width"] and c["sample_kind"].startswith("array") and np.allclose(out, np.einsum("rk,nk...->nr...", M, wins.astype(float)).reshape(exp.shape)):
            key = "C19/%s/%s/sample-ignored" % (name, skind)
        else:
            key = "C19/%s/%s/wrong-values/kernel-%s" % (name, skind, c["kernel"])
        i = int(np.argwhere(bad)[0][0])
        ctx.violation(key, "window %d differs from the reference" % i, c, {"got": out[i][:12], "expected": exp[i][:12]}, sig=_sig(c))
        return
    # call history with another dtype: an estimator fitted on integer data must window float data faithfully (and vice versa)
    if c["kernel"] in ("none", "average", "matrix") and not c["d"]:
        other = (arr.astype(np.float64) + 0.37) if arr.dtype.kind == "i" else np.round(arr).astype(np.int64)
        est2 = SlidingWindowTransformer(window_width=c["width"], window_stride=c["stride"], window_sample=smp, kernels=kernels, pad_width=c["pad"], pad_value=c["pad_value"])
        try:
            est2.fit([arr])
            out2 = np.asarray(est2.transform([other])[0])
            padb = np.full((pad,), c["pad_value"], dtype=other.dtype)
            xo = np.concatenate([padb, other, padb]) if pad else other
            wo = sliding_window_view(xo, c["width"], axis=0)[:: c["stride"]][:, pos].astype(np.float64)
            exo = np.einsum("rk,nk->nr", M, wo).reshape(wo.shape[0], -1)
            ctx.count("dtype_history_checks")
            if out2.shape != exo.shape or not np.allclose(out2, exo, rtol=1e-9, atol=1e-9 if c["dtype"] != "float32" else 1e-4):
                viol_key = "C19/%s/fit-dtype-leaks-into-transform" % name
                ctx.violation(viol_key, "fitted on %s data, transform of %s data differs from the reference windows" % (arr.dtype, other.dtype), c,
                              {"got": out2[:2].tolist() if out2.size else [], "expected": exo[:2].tolist() if exo.size else []}, sig=_sig(c))
                return
        except Exception as e:
            ctx.violation("C19/%s/dtype-history-raises/%s" % (name, type(e).__name__), "fit on %s then transform of %s raised %s" % (arr.dtype, other.dtype, str(e)[:160]), c, None, sig=_sig(c))
            return
    if parent[:32].min() < (1e30 if arr.dtype.kind == "f" else 2**61) or arr.tobytes() != view.tobytes():
        ctx.violation("C19/%s/modifies-input" % name, "input buffer or its surroundings were written", c, None, sig=_sig(c))
        return
    ctx.ok(_sig(c), nwin >= 2 or c["sample_kind"] != "none" or c["kernel"] != "none" or pad > 0)


def run(ctx):
    n = {"JIT": ctx.pick(72, 600), "BC": ctx.pick(30, 250), "PY": ctx.pick(900, 6000)}[ctx.mode]
    nd = {"JIT": ctx.pick(36, 200), "BC": ctx.pick(12, 60), "PY": ctx.pick(200, 1500)}[ctx.mode]
    for i in ctx.indices(n):
        c = gen_case(ctx.rng("w", i))
        if i < 2:
            ctx.sample({k: (v if k != "seq" else v[:5]) for k, v in c.items()})
        check_case(ctx, c)
    for i in ctx.indices(nd):
        c = gen_diff(ctx.rng("d", i))
        if i < 1:
            ctx.sample(c)
        check_case(ctx, c)


PARTS = {"win": run}
CHECKS = {"win": check_case}
