"""C03 — co-occurrence matrices equal the windowed, kernel-weighted count definition."""
import numpy as np

from vv import coh
from vv.core import t32_tol

ID = "C03"
LEVEL = "exploration"
TECHNIQUE = "runtime monitoring: cell-by-cell comparison of the real matrices with an independent loop reference of the definition (float64, T32 error bound), plus transpose and timestamp-shift metamorphic oracles; interpreted mode for volume, JIT over a parameter-shape menu as the deciding mode"
LEVEL_TEXT = ("The four sequence co-occurrence vectorizers are fitted on generated corpora (empty / length-1 documents, windows longer than the "
              "document, all token types of the menu, pruning and masking) over window radii, fixed/variable window functions, kernels with "
              "offset/normalize/power, mix weights, orientations, window normalisation, n-gram sizes and timestamp offsets up to 1e12; every cell "
              "is compared with a pure-Python statement of the definition within a float32 summation error *bound* (exactly for integer-valued "
              "settings). Relational oracles: 'before' block = transpose of 'after' block; adding a constant to all timestamps changes nothing. "
              "Held = no violation on the executions produced.")
LEVEL_NOTE = "The fitted vocabulary (C05), n-gram row dictionary and the timed vectorizer's public delta_mean_ are taken as given; cases where a 'variable' radius sits on a rounding boundary are skipped and counted."
RULE = ("case = (estimator, corpus, window/kernel parameters); non-trivial when the reference matrix has >= 2 non-zero cells and (a window is "
        "clipped by a sequence end, or there are >= 2 column blocks, or a token is pruned/masked); distinct = hash of the case")
ASSUMPTIONS = [
    "T32: |impl - ref| <= 2(n+2)2^-24 S + 1e-12 per cell (n contributions of total S, stored and added in float32)",
    "multiset windows: the occurrence's own multiset minus itself, then the R next/previous multisets, weighted by multiset distance; offset skips the first `offset` multisets (docstring reading)",
    "timed geometric kernel: power^(|dt|/delta) with delta = the fitted public delta_mean_ (taken as given)",
]
MIN_NONTRIVIAL = {"quick": 300, "thorough": 3000}
REQUIRED = {"quick": {"matrices_compared": 2500, "cells_compared": 100000, "jit_matrices": 150, "timed_shift_checks": 30, "transpose_checks": 30, "boundary_checks": 30},
            "thorough": {"matrices_compared": 9000, "cells_compared": 200000, "jit_matrices": 1500, "timed_shift_checks": 300, "transpose_checks": 300, "boundary_checks": 300}}


def plan(tier, seed):
    q = tier == "quick"
    jobs = [{"part": "ref", "mode": "PY", "shards": 8 if q else 14}]
    nj = 13
    jobs.append({"part": "ref", "mode": "JIT", "shards": nj, "weight": 5})
    return jobs


def compare(ctx, c, est, M, ref, where, viol):
    Md = M.toarray().astype(np.float64)
    if ref.M is None:
        ctx.skip(ref.why or "ambiguous")
        return None
    if Md.shape != ref.M.shape:
        viol("%s/shape" % where, "matrix shape %s, reference %s" % (Md.shape, ref.M.shape))
        return False
    tol = t32_tol(ref.CNT, np.abs(ref.M))
    exact = c["kernel"] == "flat" and not c["normalize_windows"] and not any(c["knorm"]) and all(float(m).is_integer() for m in c["mix"])
    if exact:
        tol = np.zeros_like(tol)
    bad = np.abs(Md - ref.M) > tol
    ctx.count("matrices_compared")
    ctx.count("cells_compared", int(Md.size))
    if ctx.mode != "PY":
        ctx.count("jit_matrices")
    if bad.any():
        i, j = [int(x) for x in np.argwhere(bad)[0]]
        b = j // ref.n
        lost = Md[i, j] < ref.M[i, j]
        allzero = not Md.any() and ref.M.any()
        clause = "all-zero-matrix" if allzero else ("cell-short" if lost else "cell-excess")
        extra = []
        if c["est"] == "timed" and c.get("time_offset", 0) >= 2.0**24:
            extra.append("large-timestamps")
        if c["est"] == "multi" and any(c["offset"]):
            extra.append("offset")
        viol("%s/%s%s" % (where, clause, ("/" + "+".join(extra)) if extra else ""),
             "cell (row %d, block %d, token %d) = %.9g, reference %.9g (tolerance %.3g); %d cells differ" % (i, b, j % ref.n, Md[i, j], ref.M[i, j], tol[i, j], int(bad.sum())),
             {"got_row": Md[i].tolist()[:40], "ref_row": ref.M[i].tolist()[:40], "token_label_dictionary_": dict(est.token_label_dictionary_)})
        return False
    return True


def nontrivial(c, ref):
    if ref.M is None or np.count_nonzero(ref.M) < 2:
        return False
    lens = [len(s) for s in (ref.seqs if c["est"] != "multi" else [d for d in ref.seqs])]
    clipped = any(0 < L <= max(c["radii"]) for L in lens)
    return bool(clipped or len(ref.wins) >= 2 or c["prune"] or c["mask"])


def check_case(ctx, c):
    import vectorizers as V

    okv, why = coh.valid_input(c)
    if not okv:
        return ctx.skip("invalid input: " + why)
    name = {"token": "TokenCooccurrenceVectorizer", "timed": "TimedTokenCooccurrenceVectorizer", "multi": "MultiSetCooccurrenceVectorizer", "ngram": "NgramCooccurrenceVectorizer"}[c["est"]]
    sg = coh.sig(c)
    state = {"ok": True}

    def viol(clause, what, detail=None):
        state["ok"] = False
        ctx.violation("C03/%s/%s" % (name, clause), what, c, detail, sig=sg)

    ctx.seen("parameter_shapes", coh.shape_key(c))
    est = coh.build(c, V)
    data = coh.data_of(c)
    try:
        M = est.fit_transform(data)
    except ValueError as e:
        msg = str(e)
        if "dictionary is empty" in msg:
            return ctx.skip("rejected input: empty vocabulary")
        viol("fit-raises/ValueError", "fit_transform raised ValueError: %s" % msg[:200])
        return
    except Exception as e:
        empt = "with-empty-document" if any(len(d) == 0 for d in (c["docs"] if c["est"] != "multi" else c["mdocs"])) else "no-empty-document"
        viol("fit-raises/%s/%s" % (type(e).__name__, empt), "fit_transform raised %s: %s" % (type(e).__name__, str(e)[:200]))
        return
    ref = coh.reference(c, est)
    r = compare(ctx, c, est, M, ref, "fit_transform", viol)
    if r is None:
        return
    # column dictionary: block order and names
    if r:
        td = dict(est.token_label_dictionary_)
        n = len(td)
        expcl = {}
        for b, (i, side) in enumerate(ref.wins):
            for t, k in td.items():
                expcl[("pre_" if side == "before" else "post_") + str(i) + "_" + str(t)] = k + b * n
        if dict(est.column_label_dictionary_) != expcl:
            viol("column-labels", "column_label_dictionary_ does not name (window, orientation) blocks in declared order")
    # ---- relational: 'before' block is the transpose of the 'after' block
    if r and c["est"] == "token" and ctx.rng("tr", sg).random() < 0.35 and not any(c["knorm"]) and all(w == "fixed" for w in c["wfuncs"]):
        c2 = dict(c, orients=["before", "after"], radii=[c["radii"][0]] * 2, wfuncs=["fixed"] * 2, offset=[c["offset"][0]] * 2, knorm=[False, False],
                  power=[c["power"][0]] * 2, mix=[1.0, 1.0], normalize_windows=False, nullify=False, mask=c["mask"], prune=c["prune"])
        if len(coh.R.expand(c["orients"])) == 2 or ctx.mode == "PY":
            try:
                M2 = coh.build(c2, V).fit_transform(data).toarray()
                n2 = M2.shape[0]
                ctx.count("transpose_checks")
                if not np.allclose(M2[:, :n2], M2[:, n2:].T, rtol=1e-6, atol=1e-9):
                    viol("before-is-not-transpose-of-after", "with fixed radii and no normalisation the 'before' block is not the transpose of the 'after' block")
            except ValueError:
                pass
    # ---- relational: windows never cross a sequence boundary.  Two documents joined by a run of an excluded,
    #      nullified separator longer than every radius must give the matrix of the two separate documents.
    if r and c["est"] == "token" and len(c["docs"]) >= 2 and ctx.rng("sb", sg).random() < 0.4 and all(w == "fixed" for w in c["wfuncs"]) and not c["prune"]:
        sep = "__sep__"
        k = max(c["radii"]) + 1
        joined = []
        for d in c["docs"]:
            joined += list(d) + [sep] * k
        base = dict(c, mask="[M]", nullify=True, prune={"excluded_tokens": {sep}})
        try:
            Ms = coh.build(base, V).fit_transform([list(d) for d in c["docs"]]).toarray()
            Mj = coh.build(base, V).fit_transform([joined]).toarray()
            ctx.count("boundary_checks")
            if Ms.shape != Mj.shape or not np.allclose(Ms, Mj, rtol=1e-5, atol=1e-7):
                viol("window-crosses-sequence-boundary", "documents joined by %d nullified separators give a different matrix than the separate documents" % k,
                     {"max_diff": float(np.max(np.abs(Ms - Mj))) if Ms.shape == Mj.shape else None})
        except ValueError:
            pass
    # ---- relational: timestamp shift invariance
    if r and c["est"] == "timed":
        shift = ctx.rng("sh", sg).choice([1024.0, 1e6, 2.0**24 + 1, 1.7e9, 1e12])
        if c.get("time_offset", 0) == 0 and all(abs(x) < 1e6 for ts in c["times"] for x in ts):
            c2 = dict(c, times=[[x + shift for x in ts] for ts in c["times"]])
            # only exactly representable shifts of exactly representable times keep the *differences* identical
            if all(float(x + shift) - shift == x for ts in c["times"] for x in ts):
                try:
                    est2 = coh.build(c2, V)
                    M2 = est2.fit_transform(coh.data_of(c2))
                    ctx.count("timed_shift_checks")
                    tol = t32_tol(ref.CNT, np.abs(ref.M)) * 2
                    if M2.shape != M.shape or np.any(np.abs(M2.toarray() - M.toarray()) > tol):
                        viol("timestamp-shift-changes-matrix", "adding %g to every timestamp changed the matrix (delta_mean_ %r -> %r)" % (shift, est.delta_mean_, est2.delta_mean_),
                             {"shift": shift, "max_diff": float(np.max(np.abs(M2.toarray() - M.toarray()))) if M2.shape == M.shape else None})
                except Exception as e:
                    viol("timestamp-shift-raises/%s" % type(e).__name__, "fit on shifted timestamps raised %s" % str(e)[:160])
    if state["ok"]:
        ctx.ok(sg, nontrivial(c, ref))


def run(ctx):
    if ctx.mode == "PY":
        n = ctx.pick(4000, 30000)
        for i in ctx.indices(n):
            c = coh.gen_case(ctx.rng(i))
            if i < 3:
                ctx.sample(c)
            check_case(ctx, c)
    else:
        # each JIT worker owns a slice of the shape menu (a new shape recompiles, a new corpus does not)
        shapes = coh.SHAPES[ctx.shard :: ctx.nshards]
        per = ctx.pick(36, 260)
        for si, shape in enumerate(shapes):
            # NgramCooccurrenceVectorizer builds a fresh jitted tuple converter per instance: every fit recompiles (~3 s)
            for k in range(per if shape[0] != "ngram" else ctx.pick(9, 50)):
                c = coh.gen_case(ctx.rng("jit", shape[0], shape[1], str(shape[2]), shape[3], k), shape=shape)
                if k < 1 and si < 1:
                    ctx.sample(c)
                check_case(ctx, c)


PARTS = {"ref": run}
CHECKS = {"ref": check_case}
