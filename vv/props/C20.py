"""C20 — histogram rows conserve the events; KDE rows depend only on the value multiset."""
import math

import numpy as np

ID = "C20"
LEVEL = "exploration"
TECHNIQUE = "runtime monitoring: partition + conservation oracle on fitted bin_intervals_ with edge/ulp probes; permutation-metamorphic and closed-form KDE oracle"
LEVEL_TEXT = ("HistogramVectorizer and KDEVectorizer are fitted on generated datasets over the strategy / absolute_range / outlier-bin menu and "
              "transformed on probe sequences built from the fitted edges themselves (each edge, +-1 ulp, training min/max, far outliers, empty "
              "rows); an oracle written from the statement checks the partition, bin-wise membership and conservation, and for the KDE "
              "non-negativity, order-independence and the closed-form Gaussian density (also for sequences of 8193-20011 values); every histogram estimator is re-fitted on shifted data and compared with a fresh one. Held = no violation on the executions produced.")
LEVEL_NOTE = "Trusts pandas Interval endpoints as the fitted edges (the oracle re-does membership with plain float comparisons) and float64 exp for the closed-form KDE."
RULE = ("case = (dataset, n_components, strategy, absolute_range, outlier bins) resp. (dataset, bandwidth, n_components, grid strategy); "
        "non-trivial when the training data have >= 3 distinct values and the probe set hits >= 2 bins; distinct = distinct parameter tuple + data hash")
ASSUMPTIONS = [
    "training data contain at least two distinct values inside the absolute range; strategy='quantile' only on non-negative data (documented domain)",
    "KDE order-independence is judged to rtol 1e-10 (tree summation order), the Gaussian closed form to rtol 1e-9",
]
MIN_NONTRIVIAL = {"quick": 60, "thorough": 600}
REQUIRED = {"quick": {"hist_rows": 500, "edge_probes": 300, "kde_rows": 100, "kde_long_rows": 6, "hist_refits": 200}, "thorough": {"hist_rows": 5000, "edge_probes": 3000, "kde_rows": 1000, "kde_long_rows": 60, "hist_refits": 2000}}


def plan(tier, seed):
    q = tier == "quick"
    return [
        {"part": "hist", "mode": "PY", "shards": 6 if q else 12},
        {"part": "kde", "mode": "PY", "shards": 3 if q else 8},
        {"part": "kde", "mode": "JIT", "shards": 1 if q else 2, "args": {"auto_bandwidth": True}, "weight": 3},
    ]


def gen_data(r, nonneg=False):
    nseq = r.randint(1, 6)
    style = r.choice(["uniform", "rounded", "integers", "clustered", "tiny-range", "huge"])
    lo = 0.0 if nonneg else r.choice([-10.0, 0.0, 5.0])
    out = []
    for _ in range(nseq):
        n = r.choice([1, 2, 3, 8, 30])
        if style == "uniform":
            s = [lo + r.random() * 10 for _ in range(n)]
        elif style == "rounded":
            s = [round(lo + r.random() * 10, r.choice([0, 1])) for _ in range(n)]
        elif style == "integers":
            s = [float(lo + r.randint(0, 6)) for _ in range(n)]
        elif style == "clustered":
            s = [lo + r.choice([1.0, 1.0, 1.0, 7.0]) + r.choice([0, 0, 1e-9, 0.5]) for _ in range(n)]
        elif style == "tiny-range":
            s = [lo + 1.0 + r.random() * 1e-9 for _ in range(n)]
        else:
            s = [lo + r.random() * 1e9 for _ in range(n)]
        out.append(s)
    flat = sorted(set(v for s in out for v in s))
    if len(flat) < 3:
        out[0] = out[0] + [lo + 0.25, lo + 3.5, lo + 9.75]
    return out


def gen_hist(r):
    strategy = r.choice(["uniform", "uniform", "quantile"])
    X = gen_data(r, nonneg=strategy == "quantile")
    flat = [v for s in X for v in s]
    mn, mx = min(flat), max(flat)
    span = mx - mn
    ar = r.choice(["inf", "wide", "exact", "inside", "half-inf"])
    if ar == "inf":
        rng = ["-inf", "inf"]
    elif ar == "wide":
        rng = [mn - 1 - span, mx + 1 + span]
    elif ar == "exact":
        rng = [mn, mx]
    elif ar == "inside":
        rng = [mn + 0.25 * span, mx - 0.25 * span]
    else:
        rng = [mn - 2.0, "inf"]
    return {"kind": "hist", "X": X, "n_components": r.choice([2, 3, 5, 8, 30]), "strategy": strategy, "absolute_range": rng,
            "append_outlier_bins": r.random() < 0.5, "arkind": ar, "extra": [[mn - 1e6, mx + 1e6, mn, mx]], "as_array": r.random() < 0.5}


def _f(x):
    return float(x) if not isinstance(x, str) else float(x)


def _sig_h(c):
    return ("hist", c["n_components"], c["strategy"], c["arkind"], c["append_outlier_bins"], hash(str(c["X"])) % 10**9)


def check_hist(ctx, c):
    import vectorizers as V

    lo, hi = _f(c["absolute_range"][0]), _f(c["absolute_range"][1])
    X = [np.array(s, dtype=float) for s in c["X"]] if c["as_array"] else [list(s) for s in c["X"]]
    inside = sorted(set(v for s in c["X"] for v in s if lo < v < hi))
    if len(inside) < 2:
        ctx.skip("fewer than two distinct training values inside the absolute range")
        return
    est = V.HistogramVectorizer(n_components=c["n_components"], strategy=c["strategy"], absolute_range=(lo, hi),
                                append_outlier_bins=c["append_outlier_bins"])
    name = "HistogramVectorizer"

    def viol(clause, what, detail=None):
        ctx.violation("C20/%s/%s" % (name, clause), what, c, detail, sig=_sig_h(c))

    try:
        r = est.fit(X)
    except Exception as e:
        viol("fit-raises/%s" % type(e).__name__, "fit raised %s: %s" % (type(e).__name__, str(e)[:200]))
        return
    iv = [(float(i.left), float(i.right), i.closed) for i in est.bin_intervals_]
    # ---- partition
    if not iv:
        viol("partition/empty", "no bins")
        return
    if any(cl != "right" for _, _, cl in iv):
        viol("partition/closedness", "bins are not right-closed", iv[:5])
        return
    if any(not (a < b) for a, b, _ in iv):
        viol("partition/empty-or-reversed-bin", "a bin has left >= right", iv)
        return
    if any(iv[i][1] != iv[i + 1][0] for i in range(len(iv) - 1)):
        viol("partition/gap-or-overlap", "consecutive bins do not share their edge", iv)
        return
    if iv[0][0] != lo or iv[-1][1] != hi:
        viol("partition/does-not-span-absolute-range", "bins span (%r, %r], absolute range is (%r, %r]" % (iv[0][0], iv[-1][1], lo, hi), iv)
        return
    ctx.count("partitions_checked")
    # ---- probes: training rows, every edge +-1ulp, extremes
    edges = sorted(set([a for a, _, _ in iv] + [b for _, b, _ in iv]))
    probes = []
    for e in edges:
        if math.isfinite(e):
            probes += [e, float(np.nextafter(e, -np.inf)), float(np.nextafter(e, np.inf))]
    tr_min, tr_max = min(v for s in c["X"] for v in s), max(v for s in c["X"] for v in s)
    T = [list(s) for s in c["X"]] + [probes, [tr_min, tr_max, tr_min, tr_max], [tr_min - 1e6, tr_max + 1e6, -1e300, 1e300], []]
    T += [list(s) for s in c["extra"]]
    Tin = [np.array(s, dtype=float) for s in T] if c["as_array"] else T
    try:
        out = np.asarray(est.transform(Tin))
    except Exception as e:
        viol("transform-raises/%s" % type(e).__name__, "transform raised %s: %s" % (type(e).__name__, str(e)[:200]))
        return
    if out.shape != (len(T), len(iv)):
        viol("shape", "output shape %s, expected %s" % (out.shape, (len(T), len(iv))))
        return
    ctx.count("edge_probes", len(probes))
    binshit = set()
    for i, s in enumerate(T):
        ctx.count("hist_rows")
        exp = [sum(1 for v in s if a < v <= b) for a, b, _ in iv]
        row = out[i]
        if np.any(row < 0) or np.any(row != np.round(row)) or not np.all(np.isfinite(row)):
            viol("row-not-nonnegative-integers", "row %d is not a vector of non-negative integers" % i, {"row": row})
            return
        tot = sum(1 for v in s if lo < v <= hi)
        if row.sum() != tot:
            viol("conservation", "row %d holds %d events, %d of its values lie in the absolute range (lo, hi]" % (i, row.sum(), tot),
                 {"row": row, "expected": exp, "values": s[:20], "bins": iv})
            return
        if list(row) != exp:
            viol("bin-membership", "row %d differs from direct interval membership" % i, {"row": row, "expected": exp, "bins": iv})
            return
        binshit |= set(np.nonzero(row)[0].tolist())
    if r is not est:
        viol("fit-does-not-return-self", "fit returned %r" % type(r))
        return
    # re-fit the same object on shifted data: partition and rows must be those of a fresh estimator
    X2 = [np.asarray(s_, dtype=float) * 1.7 + 3.1 for s_ in c["X"]]
    inside2 = sorted(set(v for s_ in X2 for v in s_ if lo < v < hi))
    if len(inside2) >= 2:
        try:
            fresh = V.HistogramVectorizer(n_components=c["n_components"], strategy=c["strategy"], absolute_range=(lo, hi), append_outlier_bins=c["append_outlier_bins"]).fit(X2)
        except Exception:
            fresh = None  # the shifted data is not a valid training set for these parameters: nothing to compare
            ctx.count("hist_refit_data_rejected")
        if fresh is not None:
            try:
                est.fit(X2)
                ctx.count("hist_refits")
                iv_a = [(float(i.left), float(i.right)) for i in est.bin_intervals_]
                iv_b = [(float(i.left), float(i.right)) for i in fresh.bin_intervals_]
                Ta, Tb = np.asarray(est.transform(X2 + Tin[:3])), np.asarray(fresh.transform(X2 + Tin[:3]))
                if iv_a != iv_b or Ta.shape != Tb.shape or not np.array_equal(Ta, Tb):
                    viol("refit-differs-from-fresh-estimator", "after a second fit on other data the estimator bins differently from a fresh one", {"refit_bins": iv_a[:6], "fresh_bins": iv_b[:6]})
                    return
            except Exception as e:
                viol("refit-raises/%s" % type(e).__name__, "second fit on shifted data raised %s" % str(e)[:160])
                return
    if c["strategy"] == "uniform":
        want = c["n_components"] + (int(lo < min(inside)) + int(max(inside) < hi) if c["append_outlier_bins"] else 0)
        if len(iv) != want:
            ctx.count("observation:uniform-bin-count-differs")
    ctx.ok(_sig_h(c), len(inside) >= 3 and len(binshit) >= 2)


def gen_kde(r, auto=False):
    X = gen_data(r)
    X = [s + [s[0] + 0.5, s[0] + 1.25] if len(s) < 3 else s for s in X]
    return {"kind": "kde", "X": X, "bandwidth": None if auto else r.choice([0.05, 0.5, 0.7, 3.0]), "n_components": r.choice([2, 5, 9, 50]),
            "grid": r.choice(["uniform", "uniform", "density"]), "permseed": r.randrange(10**6),
            "long": ([r.choice([8193, 10000, 20011])] if (not auto and r.random() < 0.08) else [])}


def _sig_k(c):
    return ("kde", c["bandwidth"], c["n_components"], c["grid"], hash(str(c["X"])) % 10**9)


def check_kde(ctx, c):
    import vectorizers as V

    X = [np.array(s, dtype=float) for s in c["X"]]
    est = V.KDEVectorizer(bandwidth=c["bandwidth"], n_components=c["n_components"], evaluation_grid_strategy=c["grid"])

    def viol(clause, what, detail=None):
        ctx.violation("C20/KDEVectorizer/%s" % clause, what, c, detail, sig=_sig_k(c))

    if c["bandwidth"] is None:
        span = max(max(s) for s in c["X"]) - min(min(s) for s in c["X"])
        if span < 1e-6 or span > 1e6:
            ctx.skip("auto bandwidth on a degenerate range")
            return
    try:
        est.fit(X)
        o1 = est.transform(X)
    except Exception as e:
        viol("raises/%s" % type(e).__name__, "fit/transform raised %s: %s" % (type(e).__name__, str(e)[:200]))
        return
    h = float(est.bandwidth_)
    g = np.asarray(est.evaluation_grid_, dtype=float)
    if o1.shape != (len(X), c["n_components"]) or g.shape != (c["n_components"],):
        viol("shape", "output shape %s for %d sequences and %d components" % (o1.shape, len(X), c["n_components"]))
        return
    if not np.all(np.isfinite(o1)) or np.any(o1 < 0):
        viol("negative-or-nonfinite", "row has negative or non-finite density", {"min": float(np.nanmin(o1))})
        return
    rs = np.random.RandomState(c["permseed"])
    for _ in range(5):
        Xp = [s[rs.permutation(len(s))] for s in X]
        o2 = est.transform(Xp)
        ctx.count("kde_rows", len(X))
        if not np.allclose(o1, o2, rtol=1e-10, atol=1e-300):
            viol("order-dependence", "permuting the values of each sequence changed its row", {"maxrel": float(np.max(np.abs(o1 - o2) / np.maximum(o1, 1e-300)))})
            return
    # short sequences (one and two values) against the closed form, in a batch with longer ones
    if h > 0 and np.isfinite(h):
        shorts = [np.array([float(X[0][0])]), np.array([float(X[0][0]), float(X[0][-1])]), X[0], np.array([float(g.mean())])]
        os_ = est.transform(shorts)
        ds_ = np.array([[np.mean(np.exp(-0.5 * ((gg - s) / h) ** 2)) / (h * math.sqrt(2 * math.pi)) for gg in g] for s in shorts])
        ctx.count("kde_rows", len(shorts))
        if os_.shape != ds_.shape or not np.allclose(os_, ds_, rtol=1e-9, atol=1e-290):
            viol("short-sequence-differs-from-gaussian-kde-formula", "row of a 1- or 2-value sequence differs from mean_i N(g; x_i, h)", {"got": os_[:2], "expected": ds_[:2]})
            return
    # long sequences (beyond any internal block size): closed form and order independence
    if h > 0 and np.isfinite(h) and c.get("long"):
        rl = np.random.RandomState(c["permseed"] + 1)
        lo_, hi_ = float(g.min()), float(g.max())
        for n_long in c["long"]:
            sl = rl.uniform(lo_, hi_ if hi_ > lo_ else lo_ + 1.0, size=n_long)
            ol = est.transform([sl, np.sort(sl), sl[::-1].copy()])
            dl_ = np.array([np.mean(np.exp(-0.5 * ((gg - sl) / h) ** 2)) / (h * math.sqrt(2 * math.pi)) for gg in g])
            ctx.count("kde_long_rows", 3)
            if not (np.allclose(ol[0], ol[1], rtol=1e-9, atol=1e-290) and np.allclose(ol[0], ol[2], rtol=1e-9, atol=1e-290)):
                viol("order-dependence/long-sequence", "a %d-value sequence gives different rows when sorted / reversed" % n_long)
                return
            if not np.allclose(ol[0], dl_, rtol=1e-8, atol=1e-290):
                viol("long-sequence-differs-from-gaussian-kde-formula", "row of a %d-value sequence differs from mean_i N(g; x_i, h)" % n_long, {"maxrel": float(np.max(np.abs(ol[0] - dl_) / np.maximum(dl_, 1e-300)))})
                return
    # equal multisets in different rows -> equal rows
    o3 = est.transform([X[0], X[0][::-1].copy(), np.sort(X[0])])
    if not (np.allclose(o3[0], o3[1], rtol=1e-10, atol=1e-300) and np.allclose(o3[0], o3[2], rtol=1e-10, atol=1e-300)):
        viol("multiset-dependence", "rows of sequences that are permutations of each other differ")
        return
    if h > 0 and np.isfinite(h):
        direct = np.array([[np.mean(np.exp(-0.5 * ((gg - s) / h) ** 2)) / (h * math.sqrt(2 * math.pi)) for gg in g] for s in X])
        if not np.allclose(o1, direct, rtol=1e-9, atol=1e-290):
            viol("differs-from-gaussian-kde-formula", "row differs from mean_i N(g; x_i, h)", {"maxabs": float(np.max(np.abs(o1 - direct)))})
            return
    ctx.ok(_sig_k(c), len(set(v for s in c["X"] for v in s)) >= 3)


def run_hist(ctx):
    for i in ctx.indices(ctx.pick(600, 6000)):
        c = gen_hist(ctx.rng("h", i))
        if i < 2:
            ctx.sample(c)
        check_hist(ctx, c)


def run_kde(ctx):
    auto = bool(ctx.args.get("auto_bandwidth"))
    n = ctx.pick(8, 40) if auto else ctx.pick(150, 1500)
    for i in ctx.indices(n):
        c = gen_kde(ctx.rng("k", auto, i), auto)
        if auto:
            c["X"] = [s[:8] for s in c["X"][:3]]
        if i < 1:
            ctx.sample(c)
        check_kde(ctx, c)


PARTS = {"hist": run_hist, "kde": run_kde}
CHECKS = {"hist": check_hist, "kde": check_kde}
