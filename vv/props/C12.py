"""C12 — each output row depends only on its own input item and the fitted model."""
import numpy as np

from vv import zoo
from vv.props.C01 import _transform

ID = "C12"
LEVEL = "exploration"
TECHNIQUE = "runtime monitoring: batch-metamorphic oracles (split/concatenate, permute, duplicate, extreme neighbour) on fitted row-wise estimators under varied block, chunk and thread-pool sizes; thread stress of the parallel BPE encoder"
LEVEL_TEXT = ("For every row-wise estimator a fitted model transforms a batch whole, in 3 random splits, permuted, with a duplicated item and next to an "
              "extreme item (huge mass ratio, very long string, far outlier); rows must coincide (exactly for counts/encodings, 1e-9 for float "
              "pipelines). memory_size, sinkhorn_chunk_size and chunk_size are changed on the fitted object between calls, NUMBA_NUM_THREADS is "
              "1, 2 and 16 in different workers, and bpe_encode_all - the one compiled parallel loop writing into a shared container - encodes "
              "20 000 strings with 16 threads repeatedly. Held = no violation on the executions produced.")
LEVEL_NOTE = "Empty collections are outside the domain; for generator input generator_n_distributions is set to the batch length before each call."
RULE = ("case = (estimator, parameters, training data, batch); non-trivial when the batch has >= 3 items with pairwise different rows; distinct = hash of the case")
ASSUMPTIONS = ["float pipelines are compared with rtol=atol=1e-9 (relative to max(1,|row|)), counts and encodings exactly"]
MIN_NONTRIVIAL = {"quick": 250, "thorough": 2500}
REQUIRED = {"quick": {"split_checks": 1500, "permutation_checks": 500, "duplicate_checks": 500, "block_chunk_variations": 100, "extreme_neighbour_checks": 200, "estimators_covered": 15,
                      "bpe_parallel_strings": 100000, "bigbatch_rows": 1500},
            "thorough": {"split_checks": 15000, "permutation_checks": 5000, "duplicate_checks": 5000, "block_chunk_variations": 1000, "extreme_neighbour_checks": 2000, "estimators_covered": 15,
                         "bpe_parallel_strings": 400000, "bigbatch_rows": 6000}}

ROWWISE = sorted(n for n, z in zoo.ZOO.items() if z.rowwise)
GROUPS = [["Ngram", "Skipgram"], ["LZ", "BPE"], ["Histogram", "KDE", "Distribution", "SlidingWindow", "SeqDiff"], ["Wasserstein"], ["Sinkhorn", "ApproxWasserstein"],
          ["InfoWeight", "RowDenoise", "CountFeatureCompression"]]


def plan(tier, seed):
    q = tier == "quick"
    jobs = [{"part": "rows", "mode": "PY", "shards": 8 if q else 14, "weight": 2}]
    for gi in range(len(GROUPS)):
        jobs.append({"part": "rows", "mode": "JIT", "shards": 1, "args": {"group": gi}, "env": {"NUMBA_NUM_THREADS": ["1", "2", "16"][gi % 3]}, "weight": 5})
    jobs.append({"part": "bpe_threads", "mode": "JIT", "shards": 1, "env": {"NUMBA_NUM_THREADS": "16"}, "weight": 6})
    for k in range(3):
        jobs.append({"part": "bigbatch", "mode": "JIT", "shards": 1, "args": {"which": k}, "env": {"NUMBA_NUM_THREADS": "4"}, "weight": 6})
    return jobs


def _extreme_item(name, c, r):
    if name in ("Ngram", "Skipgram"):
        toks = [t for d in c["train"] for t in d] or ["w0"]
        return [r.choice(toks) for _ in range(400)]
    if name in ("LZ", "BPE"):
        return (c["train"][0] or "ab") * 200
    if name in ("Histogram", "KDE"):
        return [1e9, -1e9, 3.0] if name == "Histogram" else [1e6, 1e6 + 1.0, -1e6]
    if name in ("Wasserstein", "Sinkhorn", "ApproxWasserstein"):
        npts = c["npts"]
        row = [[j, 1e-9] for j in range(npts)]
        row[r.randrange(npts)][1] = 1e6
        return row
    if name in ("InfoWeight", "RowDenoise", "CountFeatureCompression"):
        m = len(c["train"][0])
        row = [0] * m
        row[r.randrange(m)] = 10**6
        row[r.randrange(m)] += 1
        return row
    return None


def check_case(ctx, c):
    import vectorizers as V

    name = c["zoo"]
    z = zoo.ZOO[name]
    sg = hash(str(c)) % 10**12
    p = c.get("params") or {}
    sub = ""
    if name == "Wasserstein":
        sub = "/%s/%s" % (p["method"], p["input_method"])
    elif name == "BPE":
        sub = "/" + p["return_type"]
    state = {"ok": True}

    def viol(clause, what, detail=None):
        state["ok"] = False
        ctx.violation("C12/%s%s/%s" % (name, sub, clause), what, c, detail, sig=sg)

    ctx.seen("estimators_covered", name)
    try:
        est = zoo.make(c, V, zoo.n_items(c, "train"))
        X, kw = zoo.data(c, "train", fit=True)
        est.fit(X, **kw)
    except Exception as e:
        return ctx.skip("fit failed (%s) - judged by C02" % type(e).__name__)
    n = len(c["test"])
    if n < 2:
        return ctx.skip("batch of one")
    exact = name in ("Ngram", "Skipgram", "LZ", "BPE", "Histogram", "SlidingWindow", "SeqDiff")
    tol = 0.0 if exact else 1e-9
    if name == "Skipgram":
        tol = 1e-9
    if not exact:
        tol = zoo.float_tol(c, est, tol)

    def T(items):
        return zoo.as_rows(_transform(est, c, name, dict(c, test=items)))

    def same(a, b):
        if exact and tol == 0.0:
            return zoo.rows_equal(a, b, 0.0)
        sc = max([1.0] + [float(np.max(np.abs(x))) for x in a if not isinstance(x, list) and np.size(x)])
        return zoo.rows_equal([np.asarray(x) / sc if not isinstance(x, list) else x for x in a], [np.asarray(x) / sc if not isinstance(x, list) else x for x in b], tol)

    try:
        full = T(c["test"])
        if len(full) != n:
            viol("row-count", "%d rows for %d items" % (len(full), n))
            return
        r = ctx.rng("ops", sg)
        # ---- splits
        for _ in range(3):
            k = r.randint(1, n - 1)
            parts = T(c["test"][:k]) + T(c["test"][k:])
            ctx.count("split_checks")
            okk, why = same(full, parts)
            if not okk:
                viol("split-changes-rows", "T(A+B) != T(A)+T(B) at split %d/%d: %s" % (k, n, why))
                return
        # ---- permutation
        perm = list(range(n))
        r.shuffle(perm)
        outp = T([c["test"][i] for i in perm])
        ctx.count("permutation_checks")
        okk, why = same([full[i] for i in perm], outp)
        if not okk:
            viol("permutation-changes-rows", "T(pi X) != pi T(X): %s" % why)
            return
        # ---- duplicate
        i = r.randrange(n)
        outd = T(c["test"] + [c["test"][i]])
        ctx.count("duplicate_checks")
        okk, why = same(full + [full[i]], outd)
        if not okk:
            viol("duplicate-item-different-row", "a duplicated item does not give a duplicated row (or changes the others): %s" % why)
            return
        # ---- an extreme neighbour must not change the other rows
        ext = _extreme_item(name, c, r)
        if ext is not None:
            try:
                oute = T([ext] + c["test"])
                ctx.count("extreme_neighbour_checks")
                okk, why = same(full, oute[1:])
                if not okk:
                    viol("extreme-neighbour-changes-rows", "adding an extreme item to the batch changed its neighbours' rows: %s" % why)
                    return
            except Exception as e:
                ctx.count("observation:extreme-item-raises-%s" % type(e).__name__)
        # ---- block / chunk sizes on the fitted object
        variations = []
        if name == "Wasserstein":
            variations = [("memory_size", v) for v in ("64", "200", "1k", "8k", "1M") if v != p.get("memory_size")]
            if p["method"] == "LOT_sinkhorn":
                variations += [("sinkhorn_chunk_size", v) for v in (1, 2, 7)]
        elif name == "Sinkhorn":
            variations = [("memory_size", "64"), ("memory_size", "200"), ("memory_size", "1k"), ("memory_size", "1M"), ("chunk_size", 1), ("chunk_size", 2), ("chunk_size", 7)]
        for attr, val in variations:
            old = getattr(est, attr)
            setattr(est, attr, val)
            try:
                outv = T(c["test"])
            finally:
                setattr(est, attr, old)
            ctx.count("block_chunk_variations")
            okk, why = same(full, outv)
            if not okk:
                viol("depends-on-%s" % attr, "rows change when %s=%r is set on the fitted object: %s" % (attr, val, why))
                return
    except Exception as e:
        viol("transform-raises/%s" % type(e).__name__, "%s: %s" % (type(e).__name__, str(e)[:200]))
        return
    if state["ok"]:
        distinct = len(set(repr(np.round(x, 9).tolist()) if not isinstance(x, list) else repr(x) for x in full))
        ctx.ok(sg, n >= 3 and distinct >= 2)


def run(ctx):
    if ctx.mode == "PY":
        n = ctx.pick(1200, 10000)
        for i in ctx.indices(n):
            name = ROWWISE[i % len(ROWWISE)]
            c = zoo.ZOO[name].gen(ctx.rng(name, i))
            if i < len(ROWWISE) and i % 5 == 0:
                ctx.sample({k: (v if len(str(v)) < 300 else str(v)[:300]) for k, v in c.items()})
            check_case(ctx, c)
    else:
        for name in GROUPS[int(ctx.args["group"])]:
            for k in range(ctx.pick(12, 90)):
                check_case(ctx, zoo.ZOO[name].gen(ctx.rng("jit", name, k)))


def run_bpe_threads(ctx):
    """The only place a compiled parallel loop writes into a shared container."""
    import vectorizers as V

    r = ctx.rng("bpe")
    train = ["".join(r.choice("abcde") for _ in range(r.randint(5, 60))) for _ in range(200)]
    b = V.BytePairEncodingVectorizer(max_vocab_size=60, return_type="sequences").fit(train)
    strings = ["".join(r.choice("abcdef") for _ in range(r.choice([0, 1, 2, 7, 30, 120]))) for _ in range(20000)]
    ref = None
    reps = ctx.pick(5, 25)
    for k in range(reps):
        enc = b.transform(strings)
        ctx.count("bpe_parallel_strings", len(strings))
        cur = [tuple(int(x) for x in e) for e in enc]
        if ref is None:
            ref = cur
            # serial reference for a sample: one string at a time
            for i in range(0, len(strings), 97):
                one = tuple(int(x) for x in b.transform([strings[i]])[0])
                if one != cur[i]:
                    ctx.violation("C12/BPE/parallel-encoding-differs-from-single", "string %d encoded in a 20 000 batch differs from its single encoding" % i,
                                  {"string": strings[i]}, {"batch": cur[i][:20], "single": one[:20]}, sig=("bpe", i))
                    return
        elif cur != ref:
            i = next(j for j in range(len(cur)) if cur[j] != ref[j])
            ctx.violation("C12/BPE/parallel-encoding-not-repeatable", "repeat %d: encoding of string %d changed between identical parallel runs" % (k, i),
                          {"string": strings[i]}, {"first": ref[i][:20], "now": cur[i][:20]}, sig=("bpe-rep", k))
            return
    ctx.ok(("bpe-threads", reps), True)
    ctx.sample({"bpe_encode_all": "20000 strings x %d repeats, NUMBA_NUM_THREADS=16" % reps})


def run_bigbatch(ctx):
    """Batches larger than the kernels' internal chunk sizes (>= 256 rows per kernel call)."""
    import scipy.sparse as sp
    import vectorizers as V

    which = ["LOT_exact", "LOT_sinkhorn", "Sinkhorn"][int(ctx.args["which"])]
    reps = ctx.pick(2, 8)
    for rep in range(reps):
        rs = np.random.RandomState(ctx.seed * 100 + rep)
        npts, dim, nref = 30, 3, 4
        n = [600, 520, 777][rep % 3] if which == "LOT_exact" else [300, 257, 513][rep % 3]
        vec = rs.normal(size=(npts, dim)) + 2.0
        X = sp.random(n, npts, density=0.15, random_state=rs.randint(1 << 30), format="lil")
        for i in range(n):
            if len(X.rows[i]) < 2:
                for j in rs.choice(npts, 2, replace=False):
                    X[i, j] = rs.rand() + 0.1
        X = X.tocsr()
        metric = ["cosine", "euclidean"][rep % 2]
        mem = ["100k", "2G", "30k"][rep % 3]
        kw = dict(n_components=8, reference_size=nref, metric=metric, random_state=5, memory_size=mem)
        est = V.SinkhornVectorizer(**kw) if which == "Sinkhorn" else V.WassersteinVectorizer(method=which, **kw)
        case = {"estimator": which, "rows": n, "metric": metric, "memory_size": mem, "rep": rep, "seed": ctx.seed}
        sigc = ("bigbatch", which, rep)
        try:
            est.fit(X[:40], vectors=vec)
            whole = est.transform(X, vectors=vec)
            parts = np.vstack([est.transform(X[a : a + 100], vectors=vec) for a in range(0, n, 100)])
            perm = rs.permutation(n)
            permd = est.transform(X[perm], vectors=vec)
        except Exception as e:
            ctx.violation("C12/%s/bigbatch/raises-%s" % (which, type(e).__name__), "%s: %s" % (type(e).__name__, str(e)[:160]), case, None, sig=sigc)
            continue
        ctx.count("bigbatch_rows", n)
        sc = max(1.0, float(np.abs(parts).max()))
        tol = (1e-9 if which == "LOT_exact" else 1e-6) * sc
        if whole.shape != parts.shape:
            ctx.violation("C12/%s/bigbatch/row-count" % which, "transform of %d rows returned shape %s" % (n, whole.shape), case, None, sig=sigc)
            continue
        bad = np.nonzero(np.max(np.abs(whole - parts), axis=1) > tol)[0]
        if len(bad):
            ctx.violation("C12/%s/bigbatch/rows-differ-from-100-row-batches" % which, "rows %s of a %d-row batch differ from the same rows transformed in batches of 100" % (bad[:6].tolist(), n), case,
                          {"max_diff": float(np.max(np.abs(whole - parts))), "zero_rows_in_whole": int((np.abs(whole).sum(1) == 0).sum())}, sig=sigc)
            continue
        if np.max(np.abs(permd - whole[perm])) > tol:
            ctx.violation("C12/%s/bigbatch/permutation-changes-rows" % which, "permuting a %d-row batch changes rows" % n, case, None, sig=sigc)
            continue
        ctx.ok(sigc, True)
    ctx.sample({"bigbatch": which, "rows": "257..777 per batch, compared with 100-row batches and a permutation"})


PARTS = {"rows": run, "bpe_threads": run_bpe_threads, "bigbatch": run_bigbatch}
CHECKS = {"rows": check_case, "bpe_threads": check_case, "bigbatch": check_case}
