"""C01 — transform returns one row per input item in the fitted column space."""
import numpy as np
import scipy.sparse as sp

from vv import coh, zoo
from vv.core import t32_tol

ID = "C01"
LEVEL = "exploration"
TECHNIQUE = "runtime monitoring: shape/order/metamorphic oracles on transform of adversarial X' (unseen, empty, short, long items; X' lacking the highest row/column index) for all row-producing estimators; per-column probe items; reference-model comparison of co-occurrence transforms"
LEVEL_TEXT = ("Each estimator is fitted on generated data and asked to transform collections built to differ from the training set: items containing "
              "unseen tokens / characters / labels, empty items, items longer than anything trained on, collections that omit the highest fitted "
              "column or row index or consist of unseen vocabulary only, single items. The oracle takes the expected shape from the fitted "
              "dictionaries, requires row i of transform(X') to equal transform([X'[i]]), requires unseen vocabulary to be ignored (or masked), "
              "sends one probe item per fitted column and compares co-occurrence transforms with the reference computed on the fitted "
              "vocabulary. Held = no violation on the executions produced.")
LEVEL_NOTE = "Column meaning is probed for Ngram (exact), Skipgram, BPE-matrix, Histogram and EdgeList columns (<= 400 columns each); co-occurrence / tree columns are judged through the C03 / C15 reference on X'."
RULE = ("case = (estimator, parameters, training data, transform set); non-trivial when X' contains an item with unseen vocabulary or an empty item and "
        "the expected output has a non-zero entry; distinct = hash of the case")
ASSUMPTIONS = [
    "empty *collections* are outside the domain (sklearn convention; numba cannot type an empty list); empty *items* are inside",
    "for WassersteinVectorizer(input_method='generator') the public attribute generator_n_distributions is set to len(X') before transform (it is the documented way to announce the stream length)",
]
MIN_NONTRIVIAL = {"quick": 300, "thorough": 3000}
REQUIRED = {"quick": {"transforms_checked": 900, "row_order_checks": 400, "unseen_ignored_checks": 300, "column_probes": 1500, "cooc_reference_checks": 150, "estimators_covered": 19, "jit_transforms_checked": 100},
            "thorough": {"transforms_checked": 9000, "row_order_checks": 4000, "unseen_ignored_checks": 3000, "column_probes": 15000, "cooc_reference_checks": 1500, "estimators_covered": 19, "jit_transforms_checked": 1000}}

from vv.props.C02 import GROUPS  # noqa: E402


def plan(tier, seed):
    q = tier == "quick"
    jobs = [{"part": "tr", "mode": "PY", "shards": 8 if q else 14, "weight": 2}]
    for gi in range(len(GROUPS)):
        jobs.append({"part": "tr", "mode": "JIT", "shards": 1, "args": {"group": gi}, "weight": 5})
    return jobs


def expected_shape(name, est, c, n_items):
    if name in ("Ngram", "Skipgram", "LZ"):
        return (n_items, len(est.column_label_dictionary_))
    if name == "BPE":
        return (n_items, len(est.column_label_dictionary_)) if c["params"]["return_type"] == "matrix" else (n_items, None)
    if name == "Histogram":
        return (n_items, len(est.bin_intervals_))
    if name in ("KDE", "Distribution"):
        return (n_items, c["params"]["n_components"])
    if name in ("Wasserstein", "Sinkhorn", "ApproxWasserstein"):
        return (n_items, est.components_.shape[0])
    if name == "EdgeList":
        return (max(est.row_label_dictionary_.values()) + 1, max(est.column_label_dictionary_.values()) + 1)
    if name.startswith("Cooc"):
        nr = len(est.ngram_label_dictionary_) if name == "Cooc-ngram" else len(est.token_label_dictionary_)
        return (nr, len(est.column_label_dictionary_))
    if name == "Tree":
        return (len(est.token_label_dictionary_), len(est.column_label_dictionary_))
    if name in ("InfoWeight", "RowDenoise"):
        return (n_items, len(c["train"][0]))
    if name == "CountFeatureCompression":
        return (n_items, est.components_.shape[0])
    return (n_items, None)


def _shape_of(out):
    if sp.issparse(out) or isinstance(out, np.ndarray):
        return (out.shape[0], out.shape[1] if out.ndim > 1 else None)
    return (len(out), None)


def _transform(est, c, name, which_case):
    X, kw = zoo.data(which_case, "test", fit=False)
    if name == "Wasserstein" and c["params"]["input_method"] == "generator":
        est.generator_n_distributions = zoo.n_items(which_case, "test")
    return est.transform(X, **kw)


def check_case(ctx, c):
    import vectorizers as V

    name = c["zoo"]
    z = zoo.ZOO[name]
    sg = hash(str(c)) % 10**12
    p = c.get("params") or {}
    sub = ""
    if name == "Wasserstein":
        sub = "/%s/%s/%s" % (p["method"], p["input_method"], p["metric"])
    elif name == "BPE":
        sub = "/" + p["return_type"]
    state = {"ok": True}

    def viol(clause, what, detail=None):
        state["ok"] = False
        ctx.violation("C01/%s%s/%s" % (name, sub, clause), what, c, detail, sig=sg)

    ctx.seen("estimators_covered", name)
    if name.startswith("Cooc"):
        okv, why = coh.valid_input(c["case"])
        if not okv:
            return ctx.skip("invalid input: " + why)
    try:
        est = zoo.make(c, V, zoo.n_items(c, "train"))
        X, kw = zoo.data(c, "train", fit=True)
        est.fit(X, **kw)
    except Exception as e:
        return ctx.skip("fit failed (%s) - judged by C02/C05" % type(e).__name__)
    n_test = zoo.n_items(c, "test")
    if n_test == 0:
        return ctx.skip("empty collection")
    try:
        out = _transform(est, c, name, c)
    except Exception as e:
        viol("transform-raises/%s" % type(e).__name__, "transform(X') raised %s: %s" % (type(e).__name__, str(e)[:200]))
        return
    ctx.count("transforms_checked")
    if ctx.mode != "PY":
        ctx.count("jit_transforms_checked")
    exp = expected_shape(name, est, c, n_test)
    got = _shape_of(out)
    if got[0] != exp[0]:
        viol("row-count", "transform returned %d rows, expected %d" % (got[0], exp[0]), {"shape": got})
        return
    if exp[1] is not None and got[1] != exp[1]:
        viol("column-count", "transform returned %s columns, the fitted column space has %d" % (got[1], exp[1]), {"shape": got})
        return
    tol = zoo.float_tol(c, est, max(z.tol, 1e-9))
    # ------------------------------------------------ row-wise estimators: order, unseen-is-ignored, probes
    if z.rowwise:
        rows = zoo.as_rows(out)
        idxs = list(range(n_test)) if n_test <= 4 else sorted(set([0, n_test - 1, n_test // 2]))
        for i in idxs:
            try:
                one = _transform(est, c, name, zoo.subset(c, "test", [i]))
            except Exception as e:
                viol("single-item-transform-raises/%s" % type(e).__name__, "transform([X'[%d]]) raised %s: %s" % (i, type(e).__name__, str(e)[:160]))
                return
            ctx.count("row_order_checks")
            okk, why = zoo.rows_equal([rows[i]], zoo.as_rows(one), tol)
            if not okk:
                viol("row-order-or-dependence", "row %d of transform(X') differs from transform([X'[%d]]): %s" % (i, i, why))
                return
        # unseen vocabulary is ignored
        if name in ("Ngram", "Skipgram"):
            known = set(est._token_dictionary_) if hasattr(est, "_token_dictionary_") else None
            mask = p.get("mask_string")
            if known is not None:
                c2 = dict(c, test=[[t if t in known else mask for t in d] if mask else [t for t in d if t in known] for d in c["test"]])
                try:
                    out2 = _transform(est, c, name, c2)
                    ctx.count("unseen_ignored_checks")
                    okk, why = zoo.rows_equal(rows, zoo.as_rows(out2), tol)
                    if not okk:
                        viol("unseen-not-ignored", "transform(X') differs from transform(X' with unseen tokens %s): %s" % ("masked" if mask else "deleted", why))
                        return
                except Exception as e:
                    viol("transform-raises/%s" % type(e).__name__, "transform of the cleaned X' raised %s" % str(e)[:160])
                    return
        probes(ctx, name, est, c, viol)
    # ------------------------------------------------ co-occurrence family: reference on X' with the fitted vocabulary
    elif name.startswith("Cooc"):
        cc = c["case"]
        if cc["n_iter"] == 0 and cc["epsilon"] == 0:
            ref = coh.reference(cc, est, data_override=dict(cc, **c["test"]))
            if ref.M is not None:
                Md = out.toarray().astype(float)
                ctx.count("cooc_reference_checks")
                if Md.shape != ref.M.shape or np.any(np.abs(Md - ref.M) > t32_tol(ref.CNT, np.abs(ref.M))):
                    viol("transform-differs-from-reference-on-fitted-vocabulary", "transform(X') differs from the definition evaluated on X' with the fitted vocabulary",
                         {"max_diff": float(np.max(np.abs(Md - ref.M))) if Md.shape == ref.M.shape else None})
                    return
        # unseen tokens are ignored (deleted, or replaced by the mask)
        td = set(est.token_label_dictionary_)
        mask = cc["mask"]
        def clean(t):
            return t if t in td else (mask if mask else None)
        t2 = {}
        if cc["est"] == "multi":
            t2["mdocs"] = [[[clean(t) for t in ms if clean(t) is not None] for ms in d] for d in c["test"]["mdocs"]]
        else:
            keep = [[clean(t) is not None for t in d] for d in c["test"]["docs"]]
            t2["docs"] = [[clean(t) for t, k in zip(d, kk) if k] for d, kk in zip(c["test"]["docs"], keep)]
            if cc["est"] == "timed":
                t2["times"] = [[x for x, k in zip(ts, kk) if k] for ts, kk in zip(c["test"]["times"], keep)]
        if not (cc["est"] == "multi" and any(len(d) == 0 for d in t2["mdocs"])):
            try:
                out2 = _transform(est, c, name, dict(c, test=t2))
                ctx.count("unseen_ignored_checks")
                if out2.shape != out.shape or not np.allclose(out2.toarray(), out.toarray(), rtol=1e-6, atol=1e-9):
                    viol("unseen-not-ignored", "transform(X') differs from transform(X' with unseen tokens %s)" % ("masked" if mask else "deleted"))
                    return
            except Exception as e:
                viol("transform-raises/%s" % type(e).__name__, "transform of the cleaned X' raised %s: %s" % (type(e).__name__, str(e)[:160]))
                return
    elif name == "EdgeList":
        probes(ctx, name, est, c, viol)
    if state["ok"]:
        hostile = _hostile(name, c, est)
        nz = np.count_nonzero(zoo.to_dense(out)) if (sp.issparse(out) or isinstance(out, np.ndarray)) else sum(len(r) for r in out)
        ctx.ok(sg, bool(hostile and nz > 0))


def _hostile(name, c, est):
    try:
        if name in ("Ngram", "Skipgram"):
            known = set(est._token_dictionary_)
            return any(len(d) == 0 or any(t not in known for t in d) for d in c["test"])
        if name.startswith("Cooc"):
            td = set(est.token_label_dictionary_)
            t = c["test"]
            toks = [x for d in t.get("docs", []) for x in d] + [x for d in t.get("mdocs", []) for ms in d for x in ms]
            return any(x not in td for x in toks)
        return True
    except Exception:
        return True


def probes(ctx, name, est, c, viol):
    """One minimal item per fitted column: its row must be non-zero in that column only."""
    import vectorizers as V  # noqa

    p = c.get("params") or {}
    items, cols = [], []
    if name == "Ngram" and p.get("ngram_behaviour", "exact") == "exact":
        for lab, j in list(est.column_label_dictionary_.items())[:400]:
            items.append(list(lab) if isinstance(lab, tuple) else [lab])
            cols.append(j)
    elif name == "Skipgram":
        for lab, j in list(est.column_label_dictionary_.items())[:400]:
            items.append([lab[0], lab[1]])
            cols.append(j)
    elif name == "BPE" and p.get("return_type") == "matrix":
        mcc = int(est.max_char_code_)
        for code, j in list(est.column_label_dictionary_.items())[:400]:
            code = int(code)
            s = chr(code) if code <= mcc else str(est.tokens_[code - mcc - 1])
            if code == 0 or len(s) != 1:
                continue  # multi-character tokens re-encode through the merge list; single characters are unambiguous only
            # a single character stays itself unless it is merged with a neighbour: a 1-character string has no neighbour
            items.append(s)
            cols.append(j)
    elif name == "Histogram":
        for j, iv in enumerate(est.bin_intervals_):
            lo, hi = float(iv.left), float(iv.right)
            x = hi if np.isfinite(hi) else (lo + 1.0 if np.isfinite(lo) else 0.0)
            items.append([x])
            cols.append(j)
    elif name == "EdgeList":
        rd, cd = est.row_label_dictionary_, est.column_label_dictionary_
        for a, i in list(rd.items())[:20]:
            for b, j in list(cd.items())[:20]:
                try:
                    M = est.transform([(a, b, 2.0)]).toarray()
                except Exception as e:
                    viol("probe-raises/%s" % type(e).__name__, "transform of a single known edge raised %s" % str(e)[:120])
                    return
                ctx.count("column_probes")
                ex = np.zeros(M.shape)
                if i < ex.shape[0] and j < ex.shape[1]:
                    ex[i, j] = 2.0
                if M.shape != ex.shape or not np.array_equal(M, ex):
                    viol("column-meaning", "edge (%r, %r) does not land in cell (%d, %d) only" % (a, b, i, j))
                    return
        return
    if not items:
        return
    try:
        if name == "Histogram":
            out = est.transform([np.array(x, dtype=float) for x in items])
        else:
            out = est.transform(items)
    except Exception as e:
        viol("probe-raises/%s" % type(e).__name__, "transform of per-column probe items raised %s: %s" % (type(e).__name__, str(e)[:160]))
        return
    M = zoo.to_dense(out)
    ctx.count("column_probes", len(items))
    for i, j in enumerate(cols):
        nzc = np.nonzero(M[i])[0].tolist()
        if nzc != [j]:
            viol("column-meaning", "probe item %r for column %d lights columns %s" % (items[i], j, nzc[:6]))
            return


def run(ctx):
    names = sorted(n for n in zoo.ZOO if n not in ("SlidingWindow", "SeqDiff"))
    if ctx.mode == "PY":
        n = ctx.pick(1600, 14000)
        for i in ctx.indices(n):
            name = names[i % len(names)]
            c = zoo.ZOO[name].gen(ctx.rng(name, i))
            if i < len(names) and i % 6 == 0:
                ctx.sample({k: (v if len(str(v)) < 300 else str(v)[:300]) for k, v in c.items()})
            check_case(ctx, c)
    else:
        grp = [g for g in GROUPS[int(ctx.args["group"])] if g in names]
        per = ctx.pick(12, 90)
        for name in grp:
            for k in range(per if name != "Cooc-ngram" else ctx.pick(5, 25)):
                c = zoo.ZOO[name].gen(ctx.rng("jit", name, k))
                if name.startswith("Cooc"):
                    c["case"]["orients"] = ["directional"]
                    for key in ("radii", "wfuncs", "offset", "knorm", "power", "mix"):
                        c["case"][key] = c["case"][key][:1]
                check_case(ctx, c)


PARTS = {"tr": run}
CHECKS = {"tr": check_case}
