"""C18 — distances are finite, symmetric, zero on proportional inputs; sparse = dense.

Oracle: metric axioms + dense float64 arithmetic, on generated pairs / triples
(DESIGN §4 C18).  Every input is run in JIT, bounds-checked JIT and interpreted
mode (the functions are tiny)."""
import numpy as np

ID = "C18"
LEVEL = "exploration"
TECHNIQUE = "runtime monitoring: metric-axiom and dense-arithmetic oracles over generated pairs/triples, each executed under JIT, bounds-checked JIT and interpreter"
LEVEL_TEXT = ("Every distance function is called on tens of thousands of generated pairs and triples steered at the degenerate "
              "configurations the property names (proportional, disjoint, single-entry, tiny and huge mass); an oracle written from the "
              "statement judges finiteness, sign, symmetry, bounds, triangle inequality and sparse=dense (sparse operands both without and with explicitly stored zeros; operands must come back unchanged; kantorovich1d also for orders 2, 3, 4, 2.5). Held means: no violation on the "
              "executions produced, not for all inputs.")
LEVEL_NOTE = "Trusts numpy float64 arithmetic as the dense reference; float32 tolerance is an error bound (stated in assumptions), not a calibration."
RULE = (
    "cases are (x,y) pairs, (x,y,z) triples and sparse-helper operand pairs of non-negative vectors with positive mass, "
    "dimension 1..2000, scale 1e-6..1e6, kinds random/proportional/disjoint/single-entry/integer-count; a case is "
    "non-trivial when dimension >= 2 and the two vectors differ; distinct = distinct (kind, dim-class, scale-decade, "
    "support pattern hash)"
)
ASSUMPTIONS = [
    "sparse variants are fed float32 data and int32 sorted indices (what scipy CSR rows provide); the dense counterpart is evaluated on the same float32-rounded values",
    "'to float32 precision' is read as |s-d| <= 1e-5*|d| + 4(n+4)2^-24 with n the union support size, a bound on float32 accumulation error (hellinger compared on d^2, see DESIGN C18)",
    "JS / symmetric-KL clauses at total mass << 1 are attributed to the absolute EPS (known finding) iff the same pair rescaled to unit mass satisfies the clause",
]
MIN_NONTRIVIAL = {"quick": 200, "thorough": 2000}
REQUIRED = {"quick": {"sparse_vs_dense": 100, "triangle": 1000}, "thorough": {"sparse_vs_dense": 1000, "triangle": 10000}}


def plan(tier, seed):
    q = tier == "quick"
    return [
        {"part": "dist", "mode": "JIT", "shards": 2 if q else 6, "weight": 3},
        {"part": "dist", "mode": "BC", "shards": 1 if q else 3, "weight": 3},
        {"part": "dist", "mode": "PY", "shards": 3 if q else 6, "weight": 2},
    ]


DIMS = [1, 2, 3, 5, 8, 17, 64, 200, 2000]


def gen_vec(r, dim, kind=None):
    kind = kind or r.choice(["dense", "sparse", "counts", "single", "tiny-entries"])
    scale = 10.0 ** r.uniform(-6, 6)
    if kind == "dense":
        v = [r.random() + 1e-3 for _ in range(dim)]
    elif kind == "sparse":
        p = r.choice([0.1, 0.3, 0.7])
        v = [r.random() if r.random() < p else 0.0 for _ in range(dim)]
    elif kind == "counts":
        v = [float(r.choice([0, 0, 1, 2, 3, 10])) for _ in range(dim)]
    elif kind == "single":
        v = [0.0] * dim
        v[r.randrange(dim)] = 1.0
    else:
        v = [r.random() * 10.0 ** r.uniform(-8, 0) for _ in range(dim)]
    if sum(v) <= 0:
        v[r.randrange(dim)] = 1.0
    return [x * scale for x in v]


def gen_pair(r, py):
    dim = r.choice(DIMS[:-1] if py else DIMS)
    rel = r.choice(["random", "random", "proportional", "disjoint", "equal", "near"])
    x = gen_vec(r, dim)
    if rel == "proportional":
        lam = 10.0 ** r.uniform(-3, 3)
        y = [lam * v for v in x]
    elif rel == "equal":
        y = list(x)
    elif rel == "disjoint" and dim >= 2:
        y = gen_vec(r, dim)
        cut = r.randrange(1, dim)
        x = [v if i < cut else 0.0 for i, v in enumerate(x)]
        y = [v if i >= cut else 0.0 for i, v in enumerate(y)]
        if sum(x) <= 0:
            x[0] = 1.0
        if sum(y) <= 0:
            y[-1] = 1.0
    elif rel == "near":
        y = [v * (1 + 1e-7 * r.uniform(-1, 1)) for v in x]
    else:
        y = gen_vec(r, dim)
        rel = "random"
    return {"kind": "pair", "rel": rel, "x": x, "y": y}


def gen_triple(r, py):
    dim = r.choice([1, 2, 3, 5, 8, 17] if py else DIMS[:-1])
    x = gen_vec(r, dim)
    how = r.choice(["random", "prop", "between", "disjoint"])
    if how == "prop":
        y = [v * 3.0 for v in x]
        z = gen_vec(r, dim)
    elif how == "between":
        z = gen_vec(r, dim)
        sx, sz = sum(x), sum(z)
        t = r.random()
        y = [(1 - t) * a / sx + t * b / sz for a, b in zip(x, z)]
    elif how == "disjoint" and dim >= 3:
        y = gen_vec(r, dim)
        z = gen_vec(r, dim)
        for i in range(dim):
            keep = i % 3
            x[i] = x[i] if keep == 0 else 0.0
            y[i] = y[i] if keep == 1 else 0.0
            z[i] = z[i] if keep == 2 else 0.0
        x[0] = x[0] or 1.0
        y[1] = y[1] or 1.0
        z[2] = z[2] or 1.0
    else:
        y = gen_vec(r, dim)
        z = gen_vec(r, dim)
        how = "random"
    return {"kind": "triple", "how": how, "x": x, "y": y, "z": z}


def gen_helper(r, py):
    dim = r.choice([1, 2, 3, 6, 12, 40, 300])
    def one():
        k = r.randint(0, min(dim, 12))
        idx = sorted(r.sample(range(dim), k))
        # values exactly representable in float32; includes cancelling / zero products
        dat = [float(r.choice([-2, -1, 1, 1, 2, 3, 0.5, 0.25, 0.0])) for _ in idx]  # explicit zeros are legal in a sparse encoding
        return idx, dat
    i1, d1 = one()
    i2, d2 = one()
    return {"kind": "helper", "dim": dim, "i1": i1, "d1": d1, "i2": i2, "d2": d2}


def _sig(case):
    if case["kind"] == "helper":
        return ("h", case["dim"], tuple(case["i1"]), tuple(case["i2"]))
    x = np.asarray(case["x"])
    y = np.asarray(case["y"])
    return (case["kind"], case.get("rel", case.get("how")), len(x), int(np.floor(np.log10(x.sum()))),
            hash((x > 0).tobytes() + (y > 0).tobytes()) % 10**9)


def _call(f, *a):
    try:
        return f(*a), None
    except Exception as e:  # IndexError / UnboundLocalError in BC / PY mode belong to C10 as well as here
        return None, "%s: %s" % (type(e).__name__, str(e)[:200])


def check_case(ctx, case):
    from vectorizers import distances as D

    dense_fns = {
        "hellinger": D.hellinger,
        "total_variation": D.total_variation,
        "kantorovich1d": D.kantorovich1d,
        "jensen_shannon_divergence": D.jensen_shannon_divergence,
        "symmetric_kl_divergence": D.symmetric_kl_divergence,
    }
    sparse_fns = {
        "hellinger": D.sparse_hellinger,
        "total_variation": D.sparse_total_variation,
        "jensen_shannon_divergence": D.sparse_jensen_shannon_divergence,
        "symmetric_kl_divergence": D.sparse_symmetric_kl_divergence,
    }
    EPSY = ("jensen_shannon_divergence", "symmetric_kl_divergence")
    bad = []

    def viol(fname, clause, detail):
        bad.append(1)
        ctx.violation("C18/%s/%s" % (fname, clause), "%s: %s" % (fname, clause), case, detail, sig=_sig(case))

    if case["kind"] == "pair":
        x = np.array(case["x"], dtype=np.float64)
        y = np.array(case["y"], dtype=np.float64)
        x0, y0 = x.copy(), y.copy()
        mass = min(x.sum(), y.sum())
        # kantorovich1d with its order parameter p (Minkowski-p distance between the CDFs)
        cx, cy = np.cumsum(x0 / x0.sum()), np.cumsum(y0 / y0.sum())
        for pp in (2, 3, 4, 2.5):
            dk, ek = _call(D.kantorovich1d, x.copy(), y.copy(), pp)
            dk2, ek2 = _call(D.kantorovich1d, y.copy(), x.copy(), pp)
            ctx.count("kantorovich_orders")
            if ek or ek2:
                viol("kantorovich1d", "raises/p=%s" % pp, ek or ek2)
                continue
            refk = float(np.sum(np.abs(cx - cy) ** pp) ** (1.0 / pp))
            if not np.isfinite(dk) or dk < -1e-12:
                viol("kantorovich1d", "not-finite-or-negative/p>2" if pp > 2 else "not-finite-or-negative/p=2", {"p": pp, "d": dk})
            elif abs(dk - dk2) > 1e-9 * max(1.0, abs(dk)):
                viol("kantorovich1d", "asymmetric/p>2" if pp > 2 else "asymmetric/p=2", {"p": pp, "d(x,y)": dk, "d(y,x)": dk2})
            elif abs(dk - refk) > 1e-9 * max(1.0, refk):
                viol("kantorovich1d", "differs-from-minkowski-of-cdfs/p>2" if pp > 2 else "differs-from-minkowski-of-cdfs/p=2", {"p": pp, "d": dk, "expected": refk})
        for name, f in dense_fns.items():
            dxy, e1 = _call(f, x, y)
            dyx, e2 = _call(f, y, x)
            if e1 or e2:
                viol(name, "raises", e1 or e2)
                continue
            if not (x.tobytes() == x0.tobytes() and y.tobytes() == y0.tobytes()):
                viol(name, "modifies-input", None)
                x, y = x0.copy(), y0.copy()
            if not (np.isfinite(dxy) and np.isfinite(dyx)):
                viol(name, "not-finite" + ("-on-proportional" if case["rel"] in ("proportional", "equal", "near") else ""),
                     {"d(x,y)": dxy, "d(y,x)": dyx})
                continue
            if dxy < -1e-12:
                viol(name, "negative", dxy)
            if abs(dxy - dyx) > 1e-9 * max(1.0, abs(dxy)):
                viol(name, "asymmetric", {"d(x,y)": dxy, "d(y,x)": dyx})
            if name in ("hellinger", "total_variation") and dxy > 1 + 1e-9:
                viol(name, "above-one", dxy)
            if case["rel"] in ("proportional", "equal") and dxy > 1e-6:
                if name in EPSY and mass < 1.0:
                    # rescale to unit mass: does the clause hold there?
                    d1, _ = _call(f, x / x.sum(), y / y.sum())
                    if d1 is not None and d1 <= 1e-6:
                        viol(name, "absolute-eps-small-mass", {"d": dxy, "mass": mass, "d_unit_mass": d1})
                        continue
                viol(name, "nonzero-on-proportional", {"d": dxy, "mass": mass})
        # sparse vs dense on the same (float32-rounded) vectors
        xs = x0.astype(np.float32)
        ys = y0.astype(np.float32)
        if xs.sum() > 0 and ys.sum() > 0 and np.isfinite(xs).all() and np.isfinite(ys).all():
            xd = xs.astype(np.float64)
            yd = ys.astype(np.float64)
            import zlib
            rz = np.random.RandomState(zlib.crc32(xs.tobytes() + ys.tobytes()))
            encodings = [("", np.nonzero(xs)[0].astype(np.int32), np.nonzero(ys)[0].astype(np.int32))]
            if (xs == 0).any() or (ys == 0).any():
                # the same vectors with some of their zeros stored explicitly (a legal sparse encoding)
                k1 = np.sort(np.concatenate([np.nonzero(xs)[0], np.nonzero((xs == 0) & (rz.rand(len(xs)) < 0.5))[0]])).astype(np.int32)
                k2 = np.sort(np.concatenate([np.nonzero(ys)[0], np.nonzero((ys == 0) & (rz.rand(len(ys)) < 0.5))[0]])).astype(np.int32)
                encodings.append(("/explicit-zeros", k1, k2))
            for (enc, i1, i2), (name, sf) in [(e_, n_) for e_ in encodings for n_ in sparse_fns.items()]:
                d1 = xs[i1]
                d2 = ys[i2]
                if enc:
                    ctx.count("sparse_vs_dense_explicit_zeros")
                ops = (i1.copy(), d1.copy(), i2.copy(), d2.copy())
                s, e = _call(sf, *ops)
                if not all(np.array_equal(u, v) for u, v in zip(ops, (i1, d1, i2, d2))):
                    viol("sparse_" + name, "modifies-operands" + enc, {"i1": ops[0], "expected_i1": i1})
                    continue
                d, e2 = _call(dense_fns[name], xd.copy(), yd.copy())
                ctx.count("sparse_vs_dense")
                if e:
                    viol("sparse_" + name, "raises" + enc, e)
                    continue
                if e2 or d is None or not np.isfinite(d):
                    continue  # dense side judged above
                if not np.isfinite(s):
                    viol("sparse_" + name, "not-finite" + enc, s)
                    continue
                # float32 accumulation bound: sums of n terms carry <= n*2^-24 relative error each
                tol_abs = 4.0 * (len(np.union1d(i1, i2)) + 4) * 2.0**-24
                if name == "hellinger":
                    okk = abs(s * s - d * d) <= tol_abs + 1e-5 * d * d
                else:
                    okk = abs(s - d) <= 1e-5 * abs(d) + tol_abs
                if not okk:
                    if name in EPSY and min(xd.sum(), yd.sum()) < 1.0:
                        sx, sy = xd.sum(), yd.sum()
                        s1, _ = _call(sf, i1, (d1 / np.float32(sx)).astype(np.float32), i2, (d2 / np.float32(sy)).astype(np.float32))
                        dd1, _ = _call(dense_fns[name], xd / sx, yd / sy)
                        if s1 is not None and dd1 is not None and abs(s1 - dd1) <= 1e-5 * abs(dd1) + tol_abs:
                            viol("sparse_" + name, "absolute-eps-small-mass", {"sparse": s, "dense": d, "mass": min(sx, sy)})
                            continue
                    viol("sparse_" + name, "differs-from-dense" + enc, {"sparse": s, "dense": d})
    elif case["kind"] == "triple":
        x, y, z = (np.array(case[k], dtype=np.float64) for k in "xyz")
        for name in ("hellinger", "total_variation", "kantorovich1d"):
            f = dense_fns[name]
            vals = [_call(f, a.copy(), b.copy()) for a, b in ((x, y), (y, z), (x, z))]
            ctx.count("triangle")
            if any(e for _, e in vals):
                viol(name, "raises", [e for _, e in vals if e][0])
                continue
            dxy, dyz, dxz = (v for v, _ in vals)
            if not all(np.isfinite(v) for v in (dxy, dyz, dxz)):
                viol(name, "not-finite" + ("-on-proportional" if case["how"] == "prop" else ""), [dxy, dyz, dxz])
                continue
            if dxz > dxy + dyz + 1e-7:
                viol(name, "triangle-inequality", {"dxz": dxz, "dxy": dxy, "dyz": dyz})
    else:
        dim = case["dim"]
        i1 = np.array(case["i1"], dtype=np.int32)
        i2 = np.array(case["i2"], dtype=np.int32)
        d1 = np.array(case["d1"], dtype=np.float32)
        d2 = np.array(case["d2"], dtype=np.float32)
        a = np.zeros(dim)
        b = np.zeros(dim)
        a[i1] = d1
        b[i2] = d2
        for name, f, ref in (("sparse_sum", D.sparse_sum, a + b), ("sparse_diff", D.sparse_diff, a - b), ("sparse_mul", D.sparse_mul, a * b)):
            ops = (i1.copy(), d1.copy(), i2.copy(), d2.copy())
            got, e = _call(f, *ops)
            ctx.count("helpers")
            if not all(np.array_equal(u, v) for u, v in zip(ops, (i1, d1, i2, d2))):
                viol(name, "modifies-operands", {"i1": ops[0], "expected_i1": i1, "i2": ops[2], "expected_i2": i2})
                continue
            if e:
                viol(name, "raises", e)
                continue
            gi, gd = np.asarray(got[0]), np.asarray(got[1])
            ei = np.nonzero(ref)[0]
            if gi.shape != ei.shape or not np.array_equal(gi, ei):
                viol(name, "indices-differ-from-dense", {"got": gi, "expected": ei})
            elif not np.allclose(gd, ref[ei], rtol=1e-6, atol=0):
                viol(name, "values-differ-from-dense", {"got": gd, "expected": ref[ei]})
    if not bad:
        nt = case["kind"] == "helper" and (len(case["i1"]) + len(case["i2"]) >= 2) or (
            case["kind"] != "helper" and len(case["x"]) >= 2 and case["x"] != case["y"])
        ctx.ok(_sig(case), nt)


def run(ctx):
    py = ctx.mode == "PY"
    n_pair = ctx.pick(600, 6000) if py else ctx.pick(3000, 40000)
    n_tri = ctx.pick(2000, 20000) if py else ctx.pick(20000, 400000)
    n_help = ctx.pick(1000, 10000) if py else ctx.pick(4000, 40000)
    for i in ctx.indices(n_pair):
        case = gen_pair(ctx.rng("pair", i), py)
        if i < 3:
            ctx.sample({k: (v if not isinstance(v, list) else v[:6]) for k, v in case.items()})
        check_case(ctx, case)
    for i in ctx.indices(n_tri):
        check_case(ctx, gen_triple(ctx.rng("tri", i), py))
    for i in ctx.indices(n_help):
        case = gen_helper(ctx.rng("help", i), py)
        if i < 1:
            ctx.sample(case)
        check_case(ctx, case)


PARTS = {"dist": run}
CHECKS = {"dist": check_case}
