"""C13 — calls are free of side effects, repeatable, and leave nothing behind."""
import os
import shutil
import tempfile

import numpy as np
import scipy.sparse as sp

from vv import coh, zoo
from vv.mon.snapshot import FileTracer, diff, snap
from vv.props.C01 import _transform

ID = "C13"
LEVEL = "fault_enumeration"
TECHNIQUE = "runtime monitoring of recorded call histories: deep snapshot/compare of every argument and constructor-parameter object around each call (returning or raising), clone comparison for repeatability, sys.addaudithook file tracer + directory listing, and call-boundary fault injection enumerated over every call seen in a clean run"
LEVEL_TEXT = ("Histories fit -> transform(X1) -> transform(X2) -> transform(X1) -> transform(X3, raising) -> transform(X1) are recorded for every "
              "estimator with inputs in every container type the API accepts; a snapshot monitor compares the bytes / entries / order of all inputs "
              "and constructor-parameter objects (user dictionaries with and without masking, kernel argument dicts, base dictionaries, reference "
              "distributions and vectors) before and after each call, later outputs are compared with earlier ones and with a freshly fitted clone, "
              "and two fits with the same seed are compared. For the four spill sites of the Wasserstein/Sinkhorn family an audit-hook tracer and "
              "a listing of a private cachedir check that nothing created during a call survives it, and a fault injector fails, in turn, each "
              "call to np.memmap / randomized_svd / os.remove / the block kernels observed in a clean run (complete enumeration of those call "
              "sites for each generated configuration). Held = no violation on the executions produced.")
LEVEL_NOTE = "Fault enumeration is complete over the call-boundary failpoints of the listed functions for each configuration run, not over all program points; generators cannot be snapshotted (they are consumed), their source arrays are."
RULE = ("case = (estimator, parameters, data, history) resp. (spill configuration, failpoint, k); non-trivial when the history has >= 4 calls on an "
        "estimator with array/dict inputs, resp. when the injected fault actually fired; distinct = hash of the case (+ failpoint and k)")
ASSUMPTIONS = [
    "strictness follows the property's anchors: re-sorting the caller's indices, eliminating the caller's explicit zeros, appending a mask entry to the caller's dictionary and normalising the caller's arrays in place all count as modification",
    "after a failed fit the estimator may be unfitted or as before; after a failed transform it must transform as before",
]
MIN_NONTRIVIAL = {"quick": 250, "thorough": 2500}
REQUIRED = {"quick": {"snapshot_comparisons": 4000, "history_calls": 4000, "raising_calls": 300, "param_object_checks": 600, "fit_repeat_checks": 300, "refit_same_object_checks": 300, "clean_spill_runs": 12,
                      "faults_injected": 60, "faults_fired": 60, "refits_after_fault": 20, "audit_events": 50, "estimators_covered": 20},
            "thorough": {"snapshot_comparisons": 40000, "history_calls": 40000, "raising_calls": 3000, "param_object_checks": 6000, "fit_repeat_checks": 3000, "refit_same_object_checks": 3000, "clean_spill_runs": 60,
                         "faults_injected": 400, "faults_fired": 400, "refits_after_fault": 100, "audit_events": 300, "estimators_covered": 20}}

from vv.props.C02 import GROUPS  # noqa: E402


def plan(tier, seed):
    q = tier == "quick"
    jobs = [{"part": "history", "mode": "PY", "shards": 7 if q else 12, "weight": 2},
            {"part": "params", "mode": "PY", "shards": 3 if q else 6},
            {"part": "files", "mode": "PY", "shards": 4 if q else 8, "weight": 3},
            {"part": "files", "mode": "JIT", "shards": 1, "weight": 5, "args": {"jit": True}}]
    for gi in range(len(GROUPS)):
        jobs.append({"part": "history", "mode": "JIT", "shards": 1, "args": {"group": gi}, "weight": 5})
    return jobs


# ------------------------------------------------------------------ histories
def bad_input(c, r):
    """A transform input that is expected to make the call raise part-way (or None)."""
    name = c["zoo"]
    if name in ("Ngram", "Skipgram"):
        return [list(c["test"][0]) + ["w0"], ["w0", 1, 2.5]]
    if name in ("LZ", "BPE"):
        return [c["test"][0], 12345]
    if name in ("Histogram", "KDE"):
        return [c["test"][0], [1.0, float("nan"), float("inf")]]
    if name in ("Wasserstein", "Sinkhorn", "ApproxWasserstein"):
        return "fewer-vectors"  # one vector fewer than the matrix has columns
    if name in ("InfoWeight", "RowDenoise", "CountFeatureCompression"):
        return [row + [1] for row in c["test"]]  # one column too many
    return None


def check_history(ctx, c):
    import vectorizers as V

    name = c["zoo"]
    z = zoo.ZOO[name]
    sg = hash(str(c)) % 10**12
    p = c.get("params") or {}
    sub = ""
    if name == "Wasserstein":
        sub = "/%s/%s" % (p["method"], p["input_method"])
    elif name in ("InfoWeight", "RowDenoise", "CountFeatureCompression"):
        sub = "/" + c["fmt"]
    state = {"ok": True}

    def viol(clause, what, detail=None):
        state["ok"] = False
        ctx.violation("C13/%s%s/%s" % (name, sub, clause), what, c, detail, sig=sg)

    ctx.seen("estimators_covered", name)
    if name.startswith("Cooc"):
        okv, why = coh.valid_input(c["case"])
        if not okv:
            return ctx.skip("invalid input: " + why)

    def call(est, op, which_case, which, fit=False):
        try:
            X, kw = zoo.data(which_case, which, fit=fit)
        except Exception:
            ctx.count("observation:harness-could-not-build-hostile-input")
            return None, None, False
        # generators: snapshot their source lists instead (rebuilt identically by zoo.data)
        s0 = snap((X, kw))
        if name == "Wasserstein" and p["input_method"] == "generator":
            est.generator_n_distributions = zoo.n_items(which_case, which)
        err = None
        try:
            out = getattr(est, op)(X, **kw)
        except Exception as e:
            out, err = None, e
        ctx.count("history_calls")
        ctx.count("snapshot_comparisons")
        d = diff(s0, snap((X, kw)))
        if d and "generator" not in d:
            what = "X" if d.startswith("x[0]") else "keyword argument"
            viol("%s-modifies-input%s" % (op, "/when-raising" if err is not None else ""), "%s changed its %s: %s" % (op, what, d[:200]))
            return None, err, True
        return out, err, False

    n_tr = zoo.n_items(c, "train")
    est = zoo.make(c, V, n_tr)
    ft, err, bad = call(est, "fit_transform", c, "train", fit=True)
    if bad:
        return
    if err is not None:
        return ctx.skip("fit failed (%s) - judged by C02" % type(err).__name__)
    # two fits with the same seed
    est_b = zoo.make(c, V, n_tr)
    ft2, err2, bad = call(est_b, "fit_transform", c, "train", fit=True)
    if bad:
        return
    ctx.count("fit_repeat_checks")
    if err2 is not None:
        viol("second-fit-raises/%s" % type(err2).__name__, "an identical second fit raised %s" % str(err2)[:160])
        return
    okk, why = zoo.rows_equal(zoo.as_rows(ft), zoo.as_rows(ft2), 1e-9)
    if not okk:
        viol("fit-not-repeatable-with-same-seed", "two fits with the same random_state on the same data differ: %s" % why)
        return
    if zoo.n_items(c, "test") == 0:
        return ctx.skip("empty test collection")
    c1 = c
    c2 = dict(c, test=c["train"]) if not name.startswith("Cooc") else dict(c, test={k: c["case"][k] for k in ("docs", "times", "mdocs") if k in c["case"]})
    o1, e1, bad = call(est, "transform", c1, "test")
    if bad:
        return
    if e1 is not None:
        return ctx.skip("transform failed (%s) - judged by C01" % type(e1).__name__)
    o2, _, bad = call(est, "transform", c2, "test")
    if bad:
        return
    if name in ("Wasserstein", "Sinkhorn") and p.get("input_method", "spmatrix") == "spmatrix":
        # same measures over a *different vector table of the same shape* (support points permuted with their vectors)
        rp = ctx.rng("perm", sg)
        perm = list(range(c["npts"]))
        rp.shuffle(perm)
        inv = {old: new for new, old in enumerate(perm)}
        c3 = dict(c, vectors=[c["vectors"][old] for old in perm], test=[[[inv[j], v] for j, v in row] for row in c["train"]])
        o3, e3, bad = call(est, "transform", c3, "test")
        if bad:
            return
        if o2 is not None and o3 is not None and p.get("method") != "HeuristicLinearAlgebra":
            sc = max(1.0, float(np.max(np.abs(o2))))
            t3 = (1e-9 if p.get("method") == "LOT_exact" else 1e-6) * sc
            if np.shape(o3) != np.shape(o2) or np.max(np.abs(np.asarray(o3) - np.asarray(o2))) > t3:
                viol("transform-depends-on-earlier-call", "the same measures over a permuted vector table, transformed after a call with the original table, get different embeddings (%.3g)" % (
                    float(np.max(np.abs(np.asarray(o3) - np.asarray(o2)))) if np.shape(o3) == np.shape(o2) else float("nan")))
                return
    o1b, e1b, bad = call(est, "transform", c1, "test")
    if bad:
        return
    tol = 1e-12 if name not in ("Wasserstein", "Sinkhorn") else 1e-10
    if e1b is not None or not zoo.rows_equal(zoo.as_rows(o1), zoo.as_rows(o1b), tol)[0]:
        viol("transform-history-dependence", "transform(X1) after transform(X2) differs from the first transform(X1)" + (" (raised %s)" % type(e1b).__name__ if e1b else ""))
        return
    r = ctx.rng("bad", sg)
    bad_items = bad_input(c, r)
    if bad_items is not None:
        cbad = dict(c, test=bad_items) if bad_items != "fewer-vectors" else dict(c, vectors=c["vectors"][:-1])
        _, eb, bad = call(est, "transform", cbad, "test")
        if bad:
            return
        if eb is not None:
            ctx.count("raising_calls")
        o1c, e1c, bad = call(est, "transform", c1, "test")
        if bad:
            return
        if e1c is not None or not zoo.rows_equal(zoo.as_rows(o1), zoo.as_rows(o1c), tol)[0]:
            viol("transform-after-failed-call-differs", "transform(X1) after a %s call differs from before" % ("raising" if eb is not None else "hostile"))
            return
    # fresh clone, each input alone: every output of the history must be what a single call gives
    okk, why = zoo.rows_equal(zoo.as_rows(o1), zoo.as_rows(_transform(est_b, c, name, c1)), 1e-9)
    if not okk:
        viol("clone-transform-differs", "transform(X1) late in a history differs from transform(X1) alone on an identically fitted clone: %s" % why)
        return
    if o2 is not None:
        est_c = zoo.make(c, V, n_tr)
        Xc, kwc = zoo.data(c, "train", fit=True)
        est_c.fit(Xc, **kwc)
        okk, why = zoo.rows_equal(zoo.as_rows(o2), zoo.as_rows(_transform(est_c, c, name, c2)), 1e-9)
        if not okk:
            viol("clone-transform-differs", "transform(X2) after transform(X1) differs from transform(X2) alone on an identically fitted clone: %s" % why)
            return
    # fitting the *same object* again on the same data must reproduce the first fit (no state carried over)
    ft3, err3, bad = call(est, "fit_transform", c, "train", fit=True)
    if bad:
        return
    ctx.count("refit_same_object_checks")
    if err3 is not None:
        viol("refit-same-object-raises/%s" % type(err3).__name__, "fitting the same estimator a second time raised %s" % str(err3)[:160])
        return
    okk, why = zoo.rows_equal(zoo.as_rows(ft), zoo.as_rows(ft3), 1e-9)
    if not okk:
        viol("refit-same-object-differs", "fit_transform on an already fitted (and used) estimator differs from its first fit on the same data: %s" % why)
        return
    # re-fit the same object on *other* data (the transform set) and compare with a fresh estimator fitted on it:
    # nothing learned from, or cached during, the earlier fit and transforms may survive
    if z.rowwise and name not in ("Wasserstein", "Sinkhorn", "ApproxWasserstein", "Distribution") and zoo.n_items(c, "test") >= 2:
        c_swap = dict(c, train=c["test"], test=c["train"])
        try:
            fresh = zoo.make(c_swap, V, zoo.n_items(c_swap, "train"))
            Xs, kws = zoo.data(c_swap, "train", fit=True)
            fresh.fit(Xs, **kws)
            exp_swap = _transform(fresh, c_swap, name, c_swap)
        except Exception:
            exp_swap = None
        if exp_swap is not None:
            try:
                Xs, kws = zoo.data(c_swap, "train", fit=True)
                est.fit(Xs, **kws)
                got_swap = _transform(est, c_swap, name, c_swap)
                ctx.count("refit_other_data_checks")
                okk, why = zoo.rows_equal(zoo.as_rows(exp_swap), zoo.as_rows(got_swap), 1e-9)
                if not okk:
                    viol("refit-on-other-data-differs-from-fresh-estimator", "an estimator re-fitted on other data transforms differently from a fresh estimator fitted on that data: %s" % why)
                    return
            except Exception as e:
                viol("refit-on-other-data-raises/%s" % type(e).__name__, "re-fitting a used estimator on other data raised %s: %s" % (type(e).__name__, str(e)[:160]))
                return
    if state["ok"]:
        ctx.ok(sg, not name.startswith("Slid"))


# ------------------------------------------------------------------ constructor-parameter objects
def check_params(ctx, c):
    import vectorizers as V

    kind = c["kind"]
    sg = hash(str(c)) % 10**12

    def viol(clause, what, detail=None):
        ctx.violation("C13/params/%s/%s" % (c["label"], clause), what, c, detail, sig=sg)

    objs = {}
    try:
        if kind == "token_dictionary":
            td = {t: i for i, t in enumerate(c["dict"])}
            objs["token_dictionary"] = td
            kw = dict(token_dictionary=td)
            if c["mask"]:
                kw["mask_string"] = c["mask"]
            if c["excluded"]:
                ex = set(c["excluded"])
                objs["excluded_tokens"] = ex
                kw.pop("token_dictionary")  # a learned vocabulary: exclusions and the frequency bound both prune
                objs.pop("token_dictionary")
                kw["ignored_tokens" if c["est"] in ("Skipgram", "Tree") else "excluded_tokens"] = ex
                kw["min_occurrences"] = 2
            kargs = None
            e = c["est"]
            docs, test = c["docs"], c["test"]
            if e in coh.EST:
                kargs = [{"normalize": False, "offset": 1}]
                objs["kernel_args"] = kargs
                cls = {"token": V.TokenCooccurrenceVectorizer, "timed": V.TimedTokenCooccurrenceVectorizer, "multi": V.MultiSetCooccurrenceVectorizer, "ngram": V.NgramCooccurrenceVectorizer}[e]
                est = cls(window_radii=[2], window_orientations=["directional"], kernel_args=kargs, **kw)
                conv = {"token": lambda d: d, "ngram": lambda d: d, "timed": lambda d: [[(t, float(i)) for i, t in enumerate(x)] for x in d],
                        "multi": lambda d: [[x[i:i + 2] for i in range(0, len(x), 2)] for x in d if x]}[e]
            elif e == "Ngram":
                est, conv = V.NgramVectorizer(**kw), (lambda d: d)
            elif e == "Skipgram":
                kw.pop("mask_string", None)
                est, conv = V.SkipgramVectorizer(window_radius=2, **kw), (lambda d: d)
            else:
                from vv.props.C15 import to_adj
                est = V.LabelledTreeCooccurrenceVectorizer(window_radius=2, **kw)
                conv = lambda d: [(to_adj(list(range(-1, len(x) - 1))), np.array(x)) for x in d if x]
            calls = [("fit", conv(docs)), ("transform", conv(test)), ("transform", conv(docs)), ("fit_transform", conv(docs)), ("transform", conv(test))]
        elif kind == "lz_base":
            base = dict(c["dict"])
            objs["base_dictionary"] = base
            est = V.LZCompressionVectorizer(base_dictionary=base, max_columns=None)
            calls = [("fit", c["docs"]), ("transform", c["test"]), ("fit_transform", c["docs"])]
        elif kind == "edge_dicts":
            rd = {t: i for i, t in enumerate(c["rows"])}
            cd = {t: i for i, t in enumerate(c["cols"])}
            objs["row_label_dictionary"], objs["column_label_dictionary"] = rd, cd
            est = V.EdgeListVectorizer(row_label_dictionary=rd, column_label_dictionary=cd)
            calls = [("fit", [tuple(e) for e in c["docs"]]), ("transform", [tuple(e) for e in c["test"]])]
        else:
            return
    except Exception as e:
        return ctx.skip("construction failed: %s" % type(e).__name__)
    before = {k: snap(v) for k, v in objs.items()}
    for op, X in calls:
        s0 = snap(X)
        try:
            getattr(est, op)(X)
            raised = ""
        except Exception as e:
            raised = "/when-raising-%s" % type(e).__name__
        ctx.count("param_object_checks", len(objs))
        ctx.count("snapshot_comparisons", len(objs) + 1)
        for k, v in objs.items():
            d = diff(before[k], snap(v))
            if d:
                viol("%s-modified-by-%s%s" % (k, op, raised), "%s changed the object passed as %s: %s" % (op, k, d[:200]), {"now": repr(v)[:300]})
                return
        d = diff(s0, snap(X))
        if d:
            viol("%s-modifies-input%s" % (op, raised), "%s changed its input: %s" % (op, d[:200]))
            return
    ctx.ok(sg, True)


def gen_params(r):
    vocab = r.randint(2, 6)
    docs = [["w%d" % r.randrange(vocab) for _ in range(r.choice([1, 3, 8]))] for _ in range(r.randint(1, 4))]
    test = [[r.choice(["w0", "w1", "zz", "w%d" % r.randrange(vocab + 1)]) for _ in range(r.choice([0, 2, 6]))] for _ in range(r.randint(1, 3))]
    k = r.choice(["token_dictionary"] * 6 + ["lz_base", "edge_dicts"])
    if k == "token_dictionary":
        toks = sorted(set(t for d in docs for t in d))
        e = r.choice(["token", "timed", "multi", "ngram", "Ngram", "Skipgram", "Tree"])
        d = [t for t in toks if r.random() < 0.8] or toks[:1]
        if r.random() < 0.3:
            d.append("zz_unused")
        mask = r.choice([None, "[M]", "[M]"])
        if mask and r.random() < 0.3:
            d.append(mask)  # the user's dictionary may already contain the mask
        excl = [r.choice(toks)] if r.random() < 0.35 else None
        lab = "excluded-set" if excl else ("mask" if mask else "nomask")
        return {"kind": k, "label": "%s/%s" % (e if e not in coh.EST else "Cooc-" + e, lab), "est": e, "dict": d, "mask": mask if not excl else None, "excluded": excl, "docs": docs, "test": test}
    if k == "lz_base":
        return {"kind": k, "label": "LZ/base_dictionary", "dict": {"a": 1, "b": 2}, "docs": ["abab", "ba", ""], "test": ["aab", "q"]}
    rows, cols = ["r0", "r1", "r2"], ["c0", "c1"]
    E = [[r.choice(rows + ["rx"]), r.choice(cols + ["cx"]), float(r.randint(1, 3))] for _ in range(r.randint(1, 8))]
    return {"kind": k, "label": "EdgeList/label_dictionaries", "rows": rows, "cols": cols, "docs": E, "test": E[:2]}


# ------------------------------------------------------------------ temp files + fault enumeration
SPILL = ["spmatrix-exact", "spmatrix-sinkhorn", "sinkhorn-vectorizer", "lil", "generator"]


def build_spill(kind, cachedir, V, seed):
    rs = np.random.RandomState(seed)
    npts, dim, n = 12, 3, 14
    vec = rs.normal(size=(npts, dim)) + 1.5
    X = sp.random(n, npts, density=0.35, random_state=rs.randint(1 << 30), format="lil")
    for i in range(n):
        if len(X.rows[i]) < 2:
            for j in rs.choice(npts, 2, replace=False):
                X[i, j] = 0.5
    X = X.tocsr()
    common = dict(n_components=4, reference_size=3, random_state=1, memory_size="200", cachedir=cachedir)
    if kind == "spmatrix-exact":
        return V.WassersteinVectorizer(**common), (X,), dict(vectors=vec)
    if kind == "spmatrix-sinkhorn":
        return V.WassersteinVectorizer(method="LOT_sinkhorn", **common), (X,), dict(vectors=vec)
    if kind == "sinkhorn-vectorizer":
        return V.SinkhornVectorizer(**common), (X,), dict(vectors=vec)
    L = X.tolil()
    dl = [np.array(r_, dtype=float) for r_ in L.data]
    vl = [np.ascontiguousarray(vec[r_]) for r_ in L.rows]
    if kind == "lil":
        return V.WassersteinVectorizer(input_method="lil", **common), (dl,), dict(vectors=vl)
    ref = rs.normal(size=(3, dim)) + 1.5
    ref /= np.linalg.norm(ref, axis=1, keepdims=True)
    return (V.WassersteinVectorizer(input_method="generator", generator_vector_dim=dim, generator_n_distributions=n, **common), ((d for d in dl),),
            dict(vectors=(v for v in vl), reference_vectors=ref))


def run_files(ctx):
    import vectorizers as V
    import vectorizers.linear_optimal_transport as lot

    base = tempfile.mkdtemp(prefix="c13-", dir=os.environ.get("TMPDIR"))
    tracer = FileTracer(base)
    jit = bool(ctx.args.get("jit"))
    targets = [("np.memmap", np, "memmap"), ("randomized_svd", lot, "randomized_svd"), ("os.remove", os, "remove")]
    if not jit:
        targets += [("lot_vectors_sparse_internal", lot, "lot_vectors_sparse_internal"), ("lot_vectors_dense_internal", lot, "lot_vectors_dense_internal"),
                    ("sinkhorn_vectors_sparse_internal", lot, "sinkhorn_vectors_sparse_internal")]
    seeds = range(ctx.pick(2, 6))
    work = [(k, s) for k in SPILL for s in seeds]
    for wi in ctx.indices(len(work)):
        kind, seed = work[wi]
        case = {"spill": kind, "seed": seed}
        # ---- clean run
        cd = tempfile.mkdtemp(dir=base)
        try:
            est, args, kw = build_spill(kind, cd, V, seed)
            with tracer:
                est.fit(*args, **kw)
            clean_exc = None
        except Exception as e:
            clean_exc = e
        ctx.count("clean_spill_runs")
        ctx.count("audit_events", len(tracer.events))
        clean_embedding = np.asarray(est.embedding_).copy() if clean_exc is None and hasattr(est, "embedding_") else None
        created = [e for e in tracer.events if e[0] in ("tempfile.mkdtemp", "os.mkdir", "open")]
        ctx.seen("spill_sites", kind)
        left = [p for p in tracer.leftovers() if p.startswith(os.path.relpath(cd, base))]
        left = [p for p in left if p != os.path.relpath(cd, base)]
        if clean_exc is not None:
            ctx.violation("C13/files/%s/clean-fit-raises/%s" % (kind, type(clean_exc).__name__), "multi-block fit raised %s: %s" % (type(clean_exc).__name__, str(clean_exc)[:160]), case, None, sig=("clean", kind, seed))
            continue
        if not created:
            ctx.count("observation:no-spill-happened")
        if left:
            ctx.violation("C13/files/%s/leftover-after-successful-fit" % kind, "after fit returned, %d path(s) it created remain in cachedir: %s" % (len(left), left[:3]), case,
                          {"audit": tracer.events[:12]}, sig=("clean", kind, seed))
        else:
            ctx.ok(("clean", kind, seed), bool(created))
        # transform of a multi-block input must leave nothing either
        # ---- fault enumeration
        for tname, mod, attr in targets:
            orig = getattr(mod, attr)
            calls = [0]

            def counting(*a, **k):
                calls[0] += 1
                return orig(*a, **k)

            setattr(mod, attr, counting)
            try:
                cd0 = tempfile.mkdtemp(dir=base)
                est, args, kw = build_spill(kind, cd0, V, seed)
                est.fit(*args, **kw)
            except Exception:
                pass
            finally:
                setattr(mod, attr, orig)
            ncalls = calls[0]
            shutil.rmtree(cd0, ignore_errors=True)
            ks = list(range(1, ncalls + 1))
            if ctx.quick and len(ks) > 6:
                ks = ks[:3] + ks[-3:]
            for k in ks:
                cnt = [0]
                fired = [False]

                def failing(*a, **kw_):
                    cnt[0] += 1
                    if cnt[0] == k:
                        fired[0] = True
                        raise OSError("injected fault #%d in %s" % (k, tname))
                    return orig(*a, **kw_)

                setattr(mod, attr, failing)
                cdk = tempfile.mkdtemp(dir=base)
                raised = None
                try:
                    est, args, kw = build_spill(kind, cdk, V, seed)
                    with tracer:
                        est.fit(*args, **kw)
                except Exception as e:
                    raised = e
                finally:
                    setattr(mod, attr, orig)
                ctx.count("faults_injected")
                if fired[0]:
                    ctx.count("faults_fired")
                rel = os.path.relpath(cdk, base)
                left = [p for p in tracer.leftovers() if p.startswith(rel) and p != rel]
                fcase = dict(case, failpoint=tname, k=k, of=ncalls)
                sigk = ("fault", kind, seed, tname, k)
                if left:
                    ctx.violation("C13/files/%s/leftover-after-fault/%s" % (kind, tname), "fault #%d/%d injected in %s: %d path(s) remain in cachedir: %s" % (k, ncalls, tname, len(left), left[:3]), fcase,
                                  {"raised": repr(raised)[:120]}, sig=sigk)
                    shutil.rmtree(cdk, ignore_errors=True)
                    continue
                # estimator after the failed fit: unfitted, or usable
                if raised is not None and not isinstance(raised, OSError):
                    ctx.count("observation:fault-surfaced-as-%s" % type(raised).__name__)
                # ... and not poisoned: the *same* estimator object, fitted again without the fault, must give the
                # embedding of the clean run (and leave nothing behind)
                if raised is not None and (k == ks[0] or k == ks[-1]):
                    try:
                        _, args2, kw2 = build_spill(kind, cdk, V, seed)
                        with tracer:
                            est.fit(*args2, **kw2)
                        ctx.count("refits_after_fault")
                        e_after = np.asarray(est.embedding_)
                        if clean_embedding is not None and (e_after.shape != clean_embedding.shape or not np.allclose(e_after, clean_embedding, rtol=1e-9, atol=1e-9)):
                            ctx.violation("C13/files/%s/refit-after-fault-differs/%s" % (kind, tname), "fitting the same estimator again after an injected fault gives another embedding than a clean fit", fcase, None, sig=sigk)
                            shutil.rmtree(cdk, ignore_errors=True)
                            continue
                        left = [p for p in tracer.leftovers() if p.startswith(rel) and p != rel]
                        if left:
                            ctx.violation("C13/files/%s/leftover-after-refit" % kind, "paths remain after the successful re-fit: %s" % left[:3], fcase, None, sig=sigk)
                            shutil.rmtree(cdk, ignore_errors=True)
                            continue
                    except Exception as e2:
                        ctx.violation("C13/files/%s/refit-after-fault-raises/%s" % (kind, type(e2).__name__), "the estimator cannot be fitted again after the injected fault: %s" % str(e2)[:160], fcase, None, sig=sigk)
                        shutil.rmtree(cdk, ignore_errors=True)
                        continue
                ctx.ok(sigk, fired[0])
                shutil.rmtree(cdk, ignore_errors=True)
        shutil.rmtree(cd, ignore_errors=True)
    shutil.rmtree(base, ignore_errors=True)
    ctx.sample({"spill_sites": SPILL, "failpoints": [t[0] for t in targets], "memory_size": "200 bytes (forces multi-block)"})


def run_history(ctx):
    names = sorted(zoo.ZOO)
    if ctx.mode == "PY":
        for i in ctx.indices(ctx.pick(1500, 12000)):
            name = names[i % len(names)]
            r = ctx.rng(name, i)
            c = zoo.ZOO[name].gen(r)
            if "fmt" in c:
                c["fmt"] = r.choice(["csr", "csc", "coo", "lil", "dense", "csc-unsorted", "csr-explicit-zeros"]) if name != "RowDenoise" else r.choice(["csr", "csr-explicit-zeros"])
            if i < len(names) and i % 6 == 0:
                ctx.sample({k: (v if len(str(v)) < 300 else str(v)[:300]) for k, v in c.items()})
            check_history(ctx, c)
    else:
        for name in GROUPS[int(ctx.args["group"])]:
            for k in range(ctx.pick(8, 60) if name != "Cooc-ngram" else ctx.pick(3, 15)):
                c = zoo.ZOO[name].gen(ctx.rng("jit", name, k))
                if name.startswith("Cooc"):
                    c["case"]["orients"] = ["directional"]
                    for key in ("radii", "wfuncs", "offset", "knorm", "power", "mix"):
                        c["case"][key] = c["case"][key][:1]
                check_history(ctx, c)


def run_params(ctx):
    for i in ctx.indices(ctx.pick(700, 6000)):
        c = gen_params(ctx.rng(i))
        if i < 2:
            ctx.sample(c)
        check_params(ctx, c)


def replay_any(ctx, c):
    if "zoo" in c:
        return check_history(ctx, c)
    if "kind" in c:
        return check_params(ctx, c)
    print("file/fault cases are replayed by re-running: ./check C13 quick")


PARTS = {"history": run_history, "params": run_params, "files": run_files}
CHECKS = {"history": replay_any, "params": replay_any, "files": replay_any}
