"""C16 — LZ compression rows count each string's own parse phrases."""
import numpy as np

ID = "C16"
LEVEL = "exploration"
TECHNIQUE = "runtime monitoring: independent LZ parser as reference model for every row of fit_transform and transform; row-sum law; hash-injectivity-conditioned relabelling oracle using the fitted hash_function_"
LEVEL_TEXT = ("LZCompressionVectorizer is fitted and applied to generated string lists (empty, one character, highly repetitive, unicode, long) "
              "over max_dict_size / max_columns / base_dictionary / random_state; every output row is compared with an independent parse of "
              "that string alone, the row-sum law is checked, and with hashing the relabelling claim is judged only when the fitted hash is "
              "injective on every phrase and tested candidate of the corpus (computed by the harness). Transform sets contain strings with "
              "phrases never seen in training. Held = no violation on the executions produced.")
LEVEL_NOTE = "The reference parser follows the documented greedy rule (extend while the phrase is known, add it otherwise, stop adding at max_dict_size); base dictionaries are only combined with unhashed columns (hashed base keys are not a documented input)."
RULE = ("case = (training strings, transform strings, max_dict_size, max_columns, base dictionary, random_state); non-trivial when some string "
        "has >= 3 distinct phrases; distinct = hash of the whole case")
ASSUMPTIONS = [
    "phrases are the substrings string[start:end] tested by the greedy parse, starting with the empty phrase; the final incomplete phrase is not counted (this is what makes the row total equal len(string))",
    "the cap counts dictionary entries including base entries",
]
MIN_NONTRIVIAL = {"quick": 80, "thorough": 800}
REQUIRED = {"quick": {"rows_fit": 300, "rows_transform": 300, "hashed_rows": 60, "hash_injective_cases": 5, "huge_parses": 2},
            "thorough": {"rows_fit": 3000, "rows_transform": 3000, "hashed_rows": 400, "hash_injective_cases": 40, "huge_parses": 4}}


def plan(tier, seed):
    q = tier == "quick"
    return [
        {"part": "lz", "mode": "PY", "shards": 5 if q else 10},
        {"part": "lz", "mode": "JIT", "shards": 5 if q else 10, "weight": 3},
        {"part": "lz", "mode": "BC", "shards": 2 if q else 4, "weight": 3},
    ]


ALPH = ["ab", "abcd", "ab", "a", "xyzwé中", "ab\U0001F600c"]


def gen_string(r, alpha):
    kind = r.choice(["random", "random", "empty", "one", "repeat", "periodic", "long"])
    if kind == "empty":
        return ""
    if kind == "one":
        return r.choice(alpha)
    if kind == "repeat":
        return r.choice(alpha) * r.randint(2, 60)
    if kind == "periodic":
        p = "".join(r.choice(alpha) for _ in range(r.randint(1, 3)))
        return p * r.randint(1, 20)
    n = r.randint(1, 40) if kind == "random" else r.randint(200, 1200)
    return "".join(r.choice(alpha) for _ in range(n))


def gen_case(r, hashed_share=0.4):
    alpha = r.choice(ALPH)
    S = [gen_string(r, alpha) for _ in range(r.randint(1, 6))]
    T = [gen_string(r, alpha + r.choice(["", "q", "xy"])) for _ in range(r.randint(1, 5))]
    if r.random() < 0.5:
        T = S[: r.randint(0, len(S))] + T
    hashed = r.random() < hashed_share
    base = None
    if not hashed and r.random() < 0.3:
        base = {ch: r.randint(1, 3) for ch in set(alpha[:2])}
        if r.random() < 0.3:
            base[""] = 1
    return {"S": S, "T": T, "max_dict_size": r.choice([2, 3, 5, 17, 64, 1 << 16]),
            "max_columns": (r.choice([2, 7, 64, 1 << 16]) if hashed else None), "base": base, "random_state": r.randint(0, 5)}


def lz_ref(s, base, cap, h=None):
    """Greedy parse; returns (dict phrase->count keyed by h(phrase) if h else phrase, tested candidates, cap_hit)."""
    key = (lambda g: h(g)) if h else (lambda g: g)
    d = dict(base or {})
    size = len(d)
    tested = set()
    start = 0
    cap_hit = False
    for end in range(len(s)):
        g = s[start:end]
        tested.add(g)
        k = key(g)
        if k in d:
            d[k] += 1
        elif size >= cap:
            start = end
            cap_hit = True
        else:
            d[k] = 1
            size += 1
            start = end
    return d, tested, cap_hit


def _sig(c):
    return hash(str(c)) % 10**12


def check_case(ctx, c):
    import vectorizers as V

    S, T, cap, mc, base = c["S"], c["T"], c["max_dict_size"], c["max_columns"], c["base"]
    est = V.LZCompressionVectorizer(max_dict_size=cap, max_columns=mc, base_dictionary=base, random_state=c["random_state"])
    ok = [True]
    hk = "hashed" if mc is not None else "plain"

    def viol(clause, what, detail=None):
        ok[0] = False
        ctx.violation("C16/LZCompressionVectorizer/%s/%s" % (hk, clause), what, c, detail, sig=_sig(c))

    try:
        M = est.fit_transform(S)
    except Exception as e:
        viol("fit_transform-raises/%s" % type(e).__name__, "fit_transform raised %s: %s" % (type(e).__name__, str(e)[:200]))
        return
    M = M.toarray()
    cl = {k: int(v) for k, v in est.column_label_dictionary_.items()}
    if M.shape != (len(S), len(cl)) or sorted(cl.values()) != list(range(len(cl))):
        viol("shape", "train matrix %s vs %d strings x %d column labels" % (M.shape, len(S), len(cl)))
        return
    basesum = sum((base or {}).values())
    nphr = 0
    if mc is None:
        for i, s in enumerate(S):
            d, _, hit = lz_ref(s, base, cap)
            nphr = max(nphr, len(d))
            ctx.count("rows_fit")
            row = {g: M[i, cl[g]] for g in cl if M[i, cl[g]] != 0}
            if row != {g: float(n) for g, n in d.items() if n != 0}:
                viol("fit-row-differs-from-own-parse", "row %d of fit_transform is not the phrase count of its string" % i,
                     {"string": s[:80], "row": row, "parse": d})
                return
            if not hit and M[i].sum() != len(s) + basesum:
                viol("row-total", "row %d sums to %s, len(string)+base counts = %d" % (i, M[i].sum(), len(s) + basesum))
                return
    else:
        h = est.hash_function_
        try:
            hv = {}

            def hh(g):
                if g not in hv:
                    hv[g] = int(h(g))
                return hv[g]

            if len(cl) > mc or any(not (0 <= int(k) < mc) for k in cl):
                viol("too-many-columns", "%d columns / labels outside [0, max_columns=%d)" % (len(cl), mc))
                return
            injective_all = True
            for i, s in enumerate(S):
                ctx.count("rows_fit")
                ctx.count("hashed_rows")
                dh, tested_h, hit = lz_ref(s, None, cap, hh)  # parse driven by the hashed keys (what the code must do)
                row = {k: M[i, cl[k]] for k in cl if M[i, cl[k]] != 0}
                if not hit and M[i].sum() != len(s):
                    viol("row-total", "row %d sums to %s, len(string) = %d" % (i, M[i].sum(), len(s)))
                    return
                d, tested, hit2 = lz_ref(s, None, cap)
                nphr = max(nphr, len(d))
                cand = set(d) | tested
                inj = len({hh(g) for g in cand}) == len(cand)
                injective_all &= inj
                if inj:
                    exp = {hh(g): float(n) for g, n in d.items() if n != 0}
                    if row != exp:
                        viol("injective-hash-row-is-not-relabelled-plain-row", "hash is injective on the phrases of string %d but its row is not the relabelled unhashed row" % i,
                             {"string": s[:80], "row": row, "expected": exp})
                        return
            if injective_all:
                ctx.count("hash_injective_cases")
        except OverflowError as e:
            viol("hash-function-raises/OverflowError", "fitted hash_function_ raised OverflowError: %s" % str(e)[:120])
            return
    # ------------------------------------------------ transform
    try:
        R = est.transform(T)
    except Exception as e:
        unseen = "unseen-phrases" if any(True for _ in T) else "seen"
        viol("transform-raises/%s" % type(e).__name__, "transform raised %s: %s" % (type(e).__name__, str(e)[:200]))
        return
    R = R.toarray()
    if R.shape != (len(T), len(cl)):
        viol("transform-shape", "transform output %s, expected (%d, %d)" % (R.shape, len(T), len(cl)))
        return
    cl2 = {k: int(v) for k, v in est.column_label_dictionary_.items()}
    if cl2 != cl:
        viol("transform-changes-columns", "column_label_dictionary_ changed during transform")
        return
    for i, s in enumerate(T):
        ctx.count("rows_transform")
        if mc is None:
            d, _, _ = lz_ref(s, base, cap)
            exp = {g: float(n) for g, n in d.items() if g in cl and n != 0}
            row = {g: R[i, cl[g]] for g in cl if R[i, cl[g]] != 0}
        else:
            d, _, _ = lz_ref(s, None, cap, hh)
            exp = {k: float(n) for k, n in d.items() if k in cl and n != 0}
            row = {k: R[i, cl[k]] for k in cl if R[i, cl[k]] != 0}
        if row != exp:
            viol("transform-row-differs-from-own-parse", "row %d of transform is not the (known-phrase) count of its string" % i,
                 {"string": s[:80], "row": row, "expected": exp})
            return
    # rows do not depend on neighbours: same string twice gives the same row, in any position
    if len(T) >= 2:
        R2 = est.transform(list(reversed(T))).toarray()
        if not np.array_equal(R2[::-1], R):
            viol("transform-depends-on-batch", "reversing the batch changed some row")
            return
    if ok[0]:
        ctx.ok(_sig(c), nphr >= 3)


def run(ctx):
    n = {"PY": ctx.pick(400, 3000), "JIT": ctx.pick(200, 1500), "BC": ctx.pick(60, 400)}[ctx.mode]
    if ctx.mode == "JIT" and ctx.shard == 0:
        # more distinct phrases than 2^16 (width of any narrow size counter) - default cap, a cap above it, and no cap hit
        r = ctx.rng("huge")
        alpha = [chr(0x400 + k) for k in range(3000)]
        s_ = "".join(r.choice(alpha) for _ in range(250000))
        for cap in ((1 << 16, 100000) if ctx.quick else (1 << 16, 100000, 65535, 1 << 20)):
            c = {"S": [s_, "ab"], "T": ["ab", s_[:1000]], "max_dict_size": cap, "max_columns": None, "base": None, "random_state": 0}
            ctx.count("huge_parses")
            check_case(ctx, c)
    share = 0.4 if ctx.mode == "PY" else 0.12  # every hashed fit recompiles the parser in compiled modes
    for i in ctx.indices(n):
        c = gen_case(ctx.rng(i), share)
        if i < 2:
            ctx.sample({k: (v if k not in ("S", "T") else [s[:40] for s in v]) for k, v in c.items()})
        check_case(ctx, c)


PARTS = {"lz": run}
CHECKS = {"lz": check_case}
