"""C02 — fit_transform(X) equals fit(X).transform(X), and fit returns the estimator."""
import numpy as np

from vv import zoo

ID = "C02"
LEVEL = "exploration"
TECHNIQUE = "runtime monitoring: identity oracle on fit's return value and equality oracle fit_transform(X) vs fit(X).transform(X) on fresh clones (and on the same instance) for all 24 estimators/transformers over their parameter menus, interpreted volume + JIT sample"
LEVEL_TEXT = ("Every public estimator and transformer is instantiated over a menu that includes the settings the suite never reaches (every metric, "
              "input_method, memory_size forcing several blocks, masks, EM, return types, explicit references) and fitted on generated data; "
              "fit's return value must be the estimator itself and fit_transform(X) must equal fit(X).transform(X) on two fresh clones - exactly "
              "for counts / co-occurrences / encodings, within 1e-8 for SVD-compressed outputs generated with rank <= n_components. "
              "Held = no violation on the executions produced.")
LEVEL_NOTE = "SVD-compressed estimators are only judged when n_components equals the number of training rows (full rank) and an integer random_state is given; when two identical fits differ (fit non-determinism, C13's concern) the comparison falls back to fit_transform vs transform on the same instance."
RULE = ("case = (estimator, constructor parameters, training data); non-trivial when the output has >= 2 rows with non-zero content; distinct = hash of the case")
ASSUMPTIONS = [
    "co-occurrence outputs are compared densely (explicit zeros ignored) with 1e-6 relative tolerance when EM/normalisation is on, exactly otherwise",
    "generator inputs are re-created for every call (a generator can be consumed once)",
]
MIN_NONTRIVIAL = {"quick": 300, "thorough": 3000}
REQUIRED = {"quick": {"fit_returns_checked": 600, "equality_checked": 500, "estimators_covered": 20, "jit_equality_checked": 80},
            "thorough": {"fit_returns_checked": 6000, "equality_checked": 5000, "estimators_covered": 20, "jit_equality_checked": 800}}

GROUPS = [["Ngram", "Skipgram", "EdgeList"], ["LZ", "BPE"], ["Histogram", "KDE", "Distribution", "SlidingWindow", "SeqDiff"], ["Wasserstein"], ["Sinkhorn", "ApproxWasserstein"],
          ["InfoWeight", "RowDenoise", "CountFeatureCompression"], ["Cooc-token"], ["Cooc-timed"], ["Cooc-multi"], ["Cooc-ngram"], ["Tree"]]


def plan(tier, seed):
    q = tier == "quick"
    jobs = [{"part": "eq", "mode": "PY", "shards": 8 if q else 14, "weight": 2}]
    for gi in range(len(GROUPS)):
        jobs.append({"part": "eq", "mode": "JIT", "shards": 1, "args": {"group": gi}, "weight": 5})
    return jobs


def _same(a, b, tol):
    ra, rb = zoo.as_rows(a), zoo.as_rows(b)
    return zoo.rows_equal(ra, rb, tol)


def _no_ngram_survives(c):
    import collections

    p = c["params"]
    cnt = collections.Counter(t for d in c["train"] for t in d)
    mo = p.get("min_occurrences")
    keep = {t for t, k in cnt.items() if mo is None or k >= mo}
    lens = [len(d) if p.get("mask_string") else sum(1 for t in d if t in keep) for d in c["train"]]
    return max(lens + [0]) < p.get("ngram_size", 1)


def _empty_vocabulary(c):
    import collections

    mo = c["params"].get("min_occurrences")
    cnt = collections.Counter(t for d in c["train"] for t in d)
    return not any(mo is None or k >= mo for k in cnt.values())


def check_case(ctx, c):
    import vectorizers as V

    z = zoo.ZOO[c["zoo"]]
    name = c["zoo"]
    sg = hash(str(c)) % 10**12
    sub = ""
    p = c.get("params") or {}
    if name == "Wasserstein":
        sub = "/%s/%s/%s" % (p["method"], p["input_method"], p["metric"])
    elif name == "Sinkhorn":
        sub = "/" + p["metric"]
    elif name == "BPE":
        sub = "/" + p["return_type"]
    elif name == "Ngram" and p.get("mask_string"):
        sub = "/mask"

    def viol(clause, what, detail=None):
        ctx.violation("C02/%s%s/%s" % (name, sub, clause), what, c, detail, sig=sg)

    ctx.seen("estimators_covered", name)
    if name.startswith("Cooc"):
        okv, why = __import__("vv.coh", fromlist=["x"]).valid_input(c["case"])
        if not okv:
            return ctx.skip("invalid input: " + why)
    n = zoo.n_items(c, "train")
    try:
        e1 = zoo.make(c, V, n)
        X, kw = zoo.data(c, "train", fit=True)
        r = e1.fit(X, **kw)
    except ValueError as e:
        msg = str(e)
        if "dictionary is empty" in msg or "at least" in msg:
            return ctx.skip("rejected input: " + msg[:60])
        if name in ("Ngram", "Skipgram") and (_empty_vocabulary(c) or (name == "Ngram" and _no_ngram_survives(c))):
            return ctx.skip("rejected input: every token / n-gram is pruned")
        viol("fit-raises/ValueError", "fit raised ValueError: %s" % msg[:200])
        return
    except Exception as e:
        if name == "Ngram" and _no_ngram_survives(c):
            return ctx.skip("rejected input: no n-gram survives the token stage")
        if name in ("Ngram", "Skipgram") and _empty_vocabulary(c):
            return ctx.skip("rejected input: every token is pruned")
        expl = "/explicit-reference" if c.get("explicit_reference") else ""
        viol("fit-raises/%s%s" % (type(e).__name__, expl), "fit raised %s: %s" % (type(e).__name__, str(e)[:200]))
        return
    ctx.count("fit_returns_checked")
    if r is not e1:
        viol("fit-does-not-return-self", "fit returned %s instead of the estimator" % (type(r).__name__))
        return
    try:
        e2 = zoo.make(c, V, n)
        X2, kw2 = zoo.data(c, "train", fit=True)
        ft = e2.fit_transform(X2, **kw2)
        X3, kw3 = zoo.data(c, "train", fit=False)
        t = e1.transform(X3, **kw3)
        X4, kw4 = zoo.data(c, "train", fit=False)
        t_same = e2.transform(X4, **kw4)
    except Exception as e:
        viol("fit_transform-or-transform-raises/%s" % type(e).__name__, "%s: %s" % (type(e).__name__, str(e)[:200]))
        return
    # SVD-compressed: only full rank (n_components == n rows) is in the statement
    if z.svd:
        nc = p.get("n_components")
        if name in ("Wasserstein", "Sinkhorn", "ApproxWasserstein") and nc != n:
            return ctx.skip("n_components below the rank of the uncompressed representation")
        if name == "CountFeatureCompression" and p.get("algorithm") == "arpack":
            return ctx.skip("arpack keeps k < rank components")
    tol = z.tol
    if z.svd:
        # randomized SVD + division by sqrt(singular values): relative accuracy ~1e-8 * condition number
        sv = getattr(e1, "singular_values_", None)
        if sv is None:
            sv = getattr(e1, "component_scaling_", None)
        if sv is not None and np.size(sv):
            cond = float(np.max(np.abs(sv)) / max(np.min(np.abs(sv)), 1e-300))
            if cond > 1e6:
                # rank-deficient training representation (e.g. two identical rows): transform divides by a vanishing
                # singular value, no floating-point tolerance is meaningful there; logged, not judged
                ctx.count("observation:rank-deficient-svd-not-judged")
                return ctx.skip("uncompressed representation is numerically rank deficient (condition > 1e6)")
            tol = max(tol, min(1e-5, 1e-8 * cond**2))
    if z.svd and p.get("memory_size") in ("64", "200", "1k", "4k"):
        tol = 2e-6  # multi-block fits spill their blocks as float32 before the SVD
    exact = False
    if name.startswith("Cooc"):
        cc = c["case"]
        exact = cc["n_iter"] == 0 and cc["epsilon"] == 0 and cc["kernel"] == "flat" and not cc["normalize_windows"] and not any(cc["knorm"])
    if name in ("Ngram", "Skipgram", "EdgeList", "LZ", "BPE", "Histogram", "Tree") or exact:
        tol = 0.0 if name not in ("Skipgram", "Tree") else 1e-9
    ok_clone, why_clone = _same(ft, t, tol)
    ok_same, why_same = _same(ft, t_same, tol)
    ctx.count("equality_checked")
    if ctx.mode != "PY":
        ctx.count("jit_equality_checked")
    if not ok_same:
        viol("fit_transform-differs-from-transform", "fit_transform(X) != transform(X) on the same fitted instance: %s" % why_same)
        return
    if not ok_clone:
        # is fitting itself repeatable?  (if not, the difference belongs to C13's 'same seed, same model')
        try:
            e3 = zoo.make(c, V, n)
            X5, kw5 = zoo.data(c, "train", fit=True)
            ft2 = e3.fit_transform(X5, **kw5)
            repeat, _ = _same(ft, ft2, tol)
        except Exception:
            repeat = True
        if not repeat:
            ctx.count("observation:fit-not-repeatable-with-same-seed")
            ctx.ok(sg, False)
            return
        viol("fit_transform-differs-from-fit-then-transform", "fit_transform(X) on one clone != fit(X).transform(X) on another: %s" % why_clone)
        return
    rows = zoo.as_rows(ft)
    nz = sum(1 for r_ in rows if (isinstance(r_, list) and len(r_)) or (not isinstance(r_, list) and np.any(np.asarray(r_) != 0)))
    ctx.ok(sg, nz >= 2)


def run(ctx):
    names = sorted(zoo.ZOO)
    if ctx.mode == "PY":
        n = ctx.pick(1600, 14000)
        for i in ctx.indices(n):
            name = names[i % len(names)]
            c = zoo.ZOO[name].gen(ctx.rng(name, i))
            if i < len(names) and i % 5 == 0:
                ctx.sample({k: (v if len(str(v)) < 300 else str(v)[:300]) for k, v in c.items()})
            check_case(ctx, c)
    else:
        grp = GROUPS[int(ctx.args["group"])]
        per = ctx.pick(14, 100)
        for name in grp:
            for k in range(per if name != "Cooc-ngram" else ctx.pick(6, 30)):
                c = zoo.ZOO[name].gen(ctx.rng("jit", name, k))
                if name.startswith("Cooc"):
                    # keep the number of JIT parameter shapes small
                    c["case"]["orients"] = ["directional"]
                    for key in ("radii", "wfuncs", "offset", "knorm", "power", "mix"):
                        c["case"][key] = c["case"][key][:1]
                check_case(ctx, c)


PARTS = {"eq": run}
CHECKS = {"eq": check_case}
