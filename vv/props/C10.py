"""C10 — compiled kernels never access memory outside their arrays.

Sanitizer-style: the same edge-steered calls are executed under the normal JIT, under numba's
bounds-checked JIT (NUMBA_BOUNDSCHECK=1), interpreted (NUMBA_DISABLE_JIT=1) and under the JIT
with glibc's heap checker preloaded; IndexError / UnboundLocalError, a dying worker, or a result
that differs between modes is a violation."""
import numpy as np
import scipy.sparse as sp

from vv import coh

ID = "C10"
LEVEL = "exploration"
TECHNIQUE = "runtime monitoring, sanitizer-style: every edge-steered case re-executed under bounds-checked JIT, interpreter, and JIT with the glibc heap checker (libc_malloc_debug, MALLOC_CHECK_=3, MALLOC_PERTURB_); cross-mode result comparison as oracle"
LEVEL_TEXT = ("Numba's own checked builds play the role of an address sanitizer for the JIT-generated code: each case (tiny buffers x n_threads, EM "
              "after thresholding, length-0/1 sequences and strings, radii beyond the sequence, dictionary tokens beyond the frequency table, "
              "windows as wide as the sequence, single-entry rows, length-1 / disjoint vectors) runs in four worker processes - JIT, JIT + heap "
              "checker, NUMBA_BOUNDSCHECK=1, NUMBA_DISABLE_JIT=1 - and the runner compares exceptions and results across them. A worker that "
              "dies marks the case it was executing. Held = no violation on the executions produced.")
LEVEL_NOTE = "NUMBA_BOUNDSCHECK does not check prange bodies (verified); those kernels rely on the interpreted run and the JIT-vs-interpreter comparison. Tolerance rtol 1e-5 / atol 2.5e-7 (float32, fastmath, summation order), exact for integer-valued outputs."
RULE = ("case = one call sequence of a public estimator or distance function on an edge-steered input; an evaluation = one case executed in one "
        "mode; non-trivial when the result has >= 2 finite non-zero values; distinct = (family, case index)")
ASSUMPTIONS = [
    "results are compared only when all modes return; an exception raised identically in every mode is not C10's concern (the property owning that estimator judges it)",
    "valgrind / compiler sanitizers cannot instrument numba's run-time generated code (DESIGN 7); the glibc heap checker only sees damage to malloc metadata",
]
CRASH_IS_VIOLATION = True
MIN_NONTRIVIAL = {"quick": 250, "thorough": 2500}
REQUIRED = {"quick": {"cases_JIT": 250, "cases_BC": 250, "cases_PY": 250, "cross_mode_comparisons": 500},
            "thorough": {"cases_JIT": 2500, "cases_BC": 2500, "cases_PY": 2500, "cases_JIT#heap": 2500, "cross_mode_comparisons": 7000}}

FAMILIES = {  # family -> (quick n, thorough n)
    "cooc-token": (44, 400), "cooc-timed": (36, 300), "cooc-multi": (36, 300), "cooc-ngram": (10, 60), "bpe": (70, 700), "lz": (50, 500),
    "skipgram": (50, 500), "ngram": (40, 400), "sliding": (16, 120), "infoweight": (40, 400), "denoise": (40, 400), "distances": (200, 2500),
    "wasserstein": (20, 160),
}
HEAP_ENV = {"LD_PRELOAD": "libc_malloc_debug.so.0", "MALLOC_CHECK_": "3", "MALLOC_PERTURB_": "165"}


def plan(tier, seed):
    jobs = []
    for fam in FAMILIES:
        w = 6 if fam.startswith("cooc") or fam in ("wasserstein", "sliding") else 3
        if tier == "quick":
            # quick tier: the one compiled run is the heap-checked one (same machine code, checked allocator)
            jobs.append({"part": fam, "mode": "JIT", "shards": 1, "weight": w, "env": dict(HEAP_ENV, NUMBA_NUM_THREADS="8")})
        else:
            jobs.append({"part": fam, "mode": "JIT", "shards": 1, "weight": w, "env": {"NUMBA_NUM_THREADS": "8"}})
            jobs.append({"part": fam, "mode": "JIT", "shards": 1, "weight": w, "env": dict(HEAP_ENV, NUMBA_NUM_THREADS="2"), "tag": "heap", "args": {"heap": True}})
        jobs.append({"part": fam, "mode": "BC", "shards": 1, "weight": w, "env": {"NUMBA_NUM_THREADS": "4"}})
        jobs.append({"part": fam, "mode": "PY", "shards": 1, "weight": 1})
    return jobs


# ------------------------------------------------------------------ case generators (mode independent)
def gen(fam, r):
    if fam.startswith("cooc"):
        est = fam.split("-")[1]
        kern = "flat" if r.random() < 0.6 else {"token": "harmonic", "ngram": "harmonic", "timed": "geometric", "multi": "geometric"}[est]
        shape = (est, kern, [r.choice(["directional", "after"])] if est != "token" else ["directional"], False)
        c = coh.gen_case(r, shape=shape, allow_prune=False, allow_variable=False, lengths=[0, 0, 1, 1, 2, 3, 7, 25, 60], em=r.random() < 0.45)
        c["radii"] = [r.choice([1, 2, 5, 9, 40])] * len(c["radii"])
        c["mem"] = r.choice(["1k", "1k", "2k", "16k", None])
        c["n_threads"] = r.choice([1, 1, 2, 3, 8, 16])
        if c["n_iter"] or c["epsilon"]:
            c["epsilon"] = r.choice([0.0, 0.05, 0.2, 0.4, 0.6])
        if est == "ngram":
            c["ngram"] = r.choice([1, 2])
        if r.random() < 0.4:
            # growth-steering: many distinct cells against the smallest buffers, so that the accumulator must be re-allocated
            vocab = r.choice([9, 14, 30])
            c["docs"] = [coh.gen_tokens(r, vocab, r.choice([40, 90, 150]), zipf=False) for _ in range(r.randint(1, 3))]
            c["radii"] = [r.choice([3, 5])] * len(c["radii"])
            c["mem"] = r.choice(["1k", "1k", "2k"])
            c["n_threads"] = r.choice([1, 1, 2, 4])
            c["prune"], c["mask"], c["nullify"] = None, None, False
            if est == "timed":
                c["times"] = [[float(k) * 0.5 for k in range(len(d))] for d in c["docs"]]
            if est == "multi":
                c["mdocs"] = [[d[k : k + 2] for k in range(0, len(d), 2)] for d in c["docs"]]
        if r.random() < 0.35:
            toks = sorted(set(coh._flat_tokens(c)))
            keep = toks[: max(1, len(toks) - 1)] if r.random() < 0.5 else toks
            c["tokdict"] = keep + ["zz_tail1", "zz_tail2"][: r.randint(1, 2)]
            c["transform_docs"] = [coh.gen_tokens(r, 4, r.choice([0, 1, 5])) + ["zz_tail1"] * r.randint(1, 3) + ["zz_tail2", "t0"] for _ in range(2)]
        return c
    if fam == "bpe":
        from vv.props.C09 import gen_rand
        c = gen_rand(r)
        c["views"] = False
        return c
    if fam == "lz":
        from vv.props.C16 import gen_case
        return gen_case(r, 0.3)
    if fam == "skipgram":
        from vv.props.C06 import gen_skip
        return gen_skip(r)
    if fam == "ngram":
        from vv.props.C06 import gen_ngram
        return gen_ngram(r)
    if fam == "sliding":
        from vv.props.C19 import gen_case
        c = gen_case(r)
        if r.random() < 0.5:
            c["L"] = max(1, c["width"] - 2 * c["pad"])
            c["seq"] = c["seq"][: c["L"]] if len(c["seq"]) >= c["L"] else c["seq"]
            c["L"] = len(c["seq"])
        return c
    if fam in ("infoweight", "denoise"):
        n, m = r.choice([2, 2, 3, 6]), r.choice([1, 2, 3, 7])  # a single-row matrix is degenerate (weights 0/0 by construction)
        A = [[float(r.choice([0, 0, 1, 2, 5])) for _ in range(m)] for _ in range(n)]
        kind = r.choice(["random", "single-entry-rows", "single-entry-cols", "diagonal"])
        if kind == "single-entry-rows":
            A = [[(3.0 if j == i % m else 0.0) for j in range(m)] for i in range(n)]
        elif kind == "single-entry-cols":
            A = [[(2.0 if i == j % n else 0.0) for j in range(m)] for i in range(n)]
        elif kind == "diagonal":
            A = [[(1.0 + i if i == j else 0.0) for j in range(m)] for i in range(n)]
        if not any(any(row) for row in A):
            A[0][0] = 1.0
        if fam == "denoise" and m == 1:
            A = [row + [1.0] for row in A]  # a one-column matrix has a 0-d background model (degenerate)
        return {"A": A, "layout": r.choice(["csr", "csc-unsorted"]), "approx": r.random() < 0.5, "prior_strength": r.choice([1e-4, 0.1]), "normalize": r.random() < 0.5, "em_prior": r.choice([0.3, 5.0])}
    if fam == "distances":
        from vv.props.C18 import gen_pair, gen_helper
        if r.random() < 0.25:
            return gen_helper(r, True)
        c = gen_pair(r, True)
        if r.random() < 0.3:
            k = r.choice([1, 1, 2])
            c["x"], c["y"] = c["x"][:k], c["y"][:k]
            if sum(c["x"]) <= 0:
                c["x"][0] = 1.0
            if sum(c["y"]) <= 0:
                c["y"][0] = 1.0
        return c
    if fam == "wasserstein":
        return {"npts": r.randint(2, 9), "dim": r.choice([1, 2, 4]), "nrows": r.randint(2, 5), "nref": r.choice([1, 2, 5]), "metric": r.choice(["cosine", "euclidean"]),
                "method": r.choice(["LOT_exact", "LOT_sinkhorn", "HeuristicLinearAlgebra"]), "seed": r.randrange(10**6), "density": r.choice([0.3, 1.0]),
                "memory_size": r.choice(["1k", "2G"])}
    raise ValueError(fam)


# ------------------------------------------------------------------ execution (returns dict name -> array)
def execute(fam, c):
    import vectorizers as V

    out = {}
    if fam.startswith("cooc"):
        okv, why = coh.valid_input(c)
        if not okv:
            return None
        est = coh.build(c, V)
        out["fit_transform"] = est.fit_transform(coh.data_of(c)).toarray()
        if c["epsilon"] > 0:
            # thresholding is discontinuous: when some value sits within 1e-3 (relative) of epsilon at any step, float32
            # summation order (threads, modes) may legitimately flip a cell; such cases are not compared across modes
            from vv.ref import cooc as R
            ref = coh.reference(dict(c, n_iter=0, epsilon=0.0), est)
            amb = True
            if ref.M is not None:
                M0 = ref.M
                eps = c["epsilon"]
                def near(M):
                    cs = M.sum(0); cs[cs == 0] = 1.0
                    Mn = M / cs
                    return bool(np.any((np.abs(Mn - eps) < 1e-3 * eps) & (Mn > 0)))
                if c["est"] == "multi":
                    E, a1 = R.em(None, ref.n_rows, ref.n, ref.wins, None, ref.P, M0, c["n_iter"], eps * (1 - 1e-3), multi=ref.multi)
                    E2, a2 = R.em(None, ref.n_rows, ref.n, ref.wins, None, ref.P, M0, c["n_iter"], eps * (1 + 1e-3), multi=ref.multi)
                else:
                    kw = dict(rows_of=ref.rows_of, times=ref.times, ngram=ref.ngram)
                    E, a1 = R.em(ref.seqs, ref.n_rows, ref.n, ref.wins, ref.radii, ref.P, M0, c["n_iter"], eps * (1 - 1e-3), **kw)
                    E2, a2 = R.em(ref.seqs, ref.n_rows, ref.n, ref.wins, ref.radii, ref.P, M0, c["n_iter"], eps * (1 + 1e-3), **kw)
                # unambiguous iff the support is the same for epsilon slightly smaller and slightly larger
                amb = bool(a1 or a2 or not np.array_equal(E > 0, E2 > 0))
            if amb:
                out["__ambiguous__"] = np.array([1.0])
        if c.get("transform_docs"):
            if c["est"] == "timed":
                data = [[(t, float(i)) for i, t in enumerate(d)] for d in c["transform_docs"]]
            elif c["est"] == "multi":
                data = [[d[i : i + 2] for i in range(0, len(d), 2)] for d in c["transform_docs"]]
            else:
                data = c["transform_docs"]
            out["transform"] = est.transform(data).toarray()
        return out
    if fam == "bpe":
        b = V.BytePairEncodingVectorizer(max_vocab_size=c["max_vocab_size"], min_token_occurrence=c["min_token_occurrence"], max_char_code=c["max_char_code"], return_type="sequences")
        enc = b.fit_transform(list(c["corpus"]))
        out["fit"] = np.concatenate([np.asarray(e, dtype=np.int64) for e in enc] + [np.zeros(0, dtype=np.int64)])
        tr = b.transform(list(c["test"]))
        out["transform"] = np.concatenate([np.asarray(e, dtype=np.int64) for e in tr] + [np.zeros(0, dtype=np.int64)])
        out["lens"] = np.array([len(e) for e in tr])
        return out
    if fam == "lz":
        e = V.LZCompressionVectorizer(max_dict_size=c["max_dict_size"], max_columns=c["max_columns"], base_dictionary=c["base"], random_state=c["random_state"])
        out["fit"] = e.fit_transform(c["S"]).toarray()
        out["transform"] = e.transform(c["T"]).toarray()
        return out
    if fam == "skipgram":
        kw = dict(window_radius=c["radius"], kernel_function=c["kernel"], window_function=c["window"])
        if c["min_occurrences"]:
            kw["min_occurrences"] = c["min_occurrences"]
        if c["token_dictionary"]:
            kw["token_dictionary"] = {t: i for i, t in enumerate(c["token_dictionary"])}
        e = V.SkipgramVectorizer(**kw)
        out["fit"] = e.fit_transform(c["docs"]).toarray()
        out["transform"] = e.transform(c["test"]).toarray()
        return out
    if fam == "ngram":
        kw = dict(ngram_size=c["n"], ngram_behaviour=c["beh"])
        if c["min_occurrences"]:
            kw["min_occurrences"] = c["min_occurrences"]
        if c["token_dictionary"]:
            kw["token_dictionary"] = {t: i for i, t in enumerate(c["token_dictionary"])}
        e = V.NgramVectorizer(**kw)
        out["fit"] = e.fit_transform(c["docs"]).toarray()
        out["transform"] = e.transform(c["test"]).toarray()
        return out
    if fam == "sliding":
        from vectorizers.transformers import SlidingWindowTransformer
        from vv.props.C19 import _kernel_matrix  # noqa

        arr = np.array(c["seq"], dtype=c["dtype"])
        smp = c["sample"]
        if isinstance(smp, (list, tuple)) and len(smp) and smp[0] == "ndarray":
            smp = np.array(smp[1], dtype=np.int64)
        elif isinstance(smp, (list, tuple)) and len(smp) and smp[0] == "tuple":
            smp = (smp[1], smp[2])
        if c["kernel"] == "none":
            kernels = None
        elif c["kernel"] == "matrix":
            kernels = [np.array(c["kp"], dtype=float)]
        elif c["kernel"] == "weight":
            kernels = [("weight", np.array(c["kp"], dtype=float))]
        elif c["kernel"] == "average":
            kernels = ["average"]
        else:
            kernels = [(c["kernel"], *c["kp"])]
        if arr.shape[0] + 2 * c["pad"] < c["width"]:
            return None
        est = SlidingWindowTransformer(window_width=c["width"], window_stride=c["stride"], window_sample=smp, kernels=kernels, pad_width=c["pad"], pad_value=c["pad_value"])
        out["windows"] = np.asarray(est.fit([arr]).transform([arr])[0])
        return out
    if fam == "infoweight":
        from vectorizers.transformers import InformationWeightTransformer

        A = sp.csr_matrix(np.array(c["A"]))
        if c.get("layout") == "csc-unsorted":
            A = sp.csc_matrix(np.array(c["A"]))
            for j in range(A.shape[1]):
                lo, hi = A.indptr[j], A.indptr[j + 1]
                A.indices[lo:hi] = A.indices[lo:hi][::-1].copy()
                A.data[lo:hi] = A.data[lo:hi][::-1].copy()
            A.has_sorted_indices = False
        e = InformationWeightTransformer(prior_strength=c["prior_strength"], approx_prior=c["approx"]).fit(A)
        out["weights"] = np.asarray(e.information_weights_)
        return out
    if fam == "denoise":
        from vectorizers.transformers import RowDenoisingTransformer

        A = sp.csr_matrix(np.array(c["A"]))
        e = RowDenoisingTransformer(normalize=c["normalize"], em_background_prior=c["em_prior"]).fit(A)
        out["transform"] = e.transform(A).toarray()
        return out
    if fam == "distances":
        from vectorizers import distances as D

        if c["kind"] == "helper":
            i1, i2 = np.array(c["i1"], dtype=np.int32), np.array(c["i2"], dtype=np.int32)
            d1, d2 = np.array(c["d1"], dtype=np.float32), np.array(c["d2"], dtype=np.float32)
            for nm in ("sparse_sum", "sparse_diff", "sparse_mul"):
                gi, gd = getattr(D, nm)(i1.copy(), d1.copy(), i2.copy(), d2.copy())
                out[nm + ".ind"], out[nm + ".val"] = np.asarray(gi), np.asarray(gd)
            return out
        x, y = np.array(c["x"], dtype=np.float64), np.array(c["y"], dtype=np.float64)
        for nm in ("hellinger", "total_variation", "kantorovich1d", "circular_kantorovich", "jensen_shannon_divergence", "symmetric_kl_divergence"):
            out[nm] = np.array([getattr(D, nm)(x.copy(), y.copy())])
        out["hellinger"] = out["hellinger"] ** 2  # compared on d^2: the square root magnifies rounding near 0
        xs, ys = x.astype(np.float32), y.astype(np.float32)
        i1, i2 = np.nonzero(xs)[0].astype(np.int32), np.nonzero(ys)[0].astype(np.int32)
        if len(i1) and len(i2):
            for nm in ("sparse_hellinger", "sparse_total_variation", "sparse_jensen_shannon_divergence", "sparse_symmetric_kl_divergence"):
                out[nm] = np.array([getattr(D, nm)(i1, xs[i1], i2, ys[i2])])
            out["sparse_hellinger"] = out["sparse_hellinger"] ** 2
            # float32 accumulation over n terms in a mode-dependent order: error bound as in C18
            out["__atol__"] = np.array([4.0 * (len(np.union1d(i1, i2)) + 4) * 2.0**-24])
        return out
    if fam == "wasserstein":
        rs = np.random.RandomState(c["seed"])
        vec = rs.normal(size=(c["npts"], c["dim"])) + 2.0
        X = sp.random(c["nrows"], c["npts"], density=c["density"], random_state=rs.randint(1 << 30), format="lil")
        for i in range(c["nrows"]):
            if len(X.rows[i]) < 1:
                X[i, rs.randint(c["npts"])] = 1.0
        X = X.tocsr()
        nc = min(c["nrows"], c["nref"] * c["dim"]) if c["method"] != "HeuristicLinearAlgebra" else min(c["nrows"], c["dim"], c["npts"] - 1)
        if nc < 1:
            return None
        e = V.WassersteinVectorizer(method=c["method"], metric=c["metric"], n_components=max(1, nc), reference_size=c["nref"], random_state=4, memory_size=c["memory_size"])
        kw = {}
        if c["method"] != "HeuristicLinearAlgebra":
            # explicit reference: the generated one depends on an unseeded ARPACK start vector (C13's concern)
            rv = rs.normal(size=(c["nref"], c["dim"])) + 2.0
            if c["metric"] == "cosine":
                rv = rv / np.linalg.norm(rv, axis=1, keepdims=True)
            kw = {"reference_vectors": rv, "reference_distribution": np.full(c["nref"], 1.0 / c["nref"])}
        emb = e.fit_transform(X, vectors=vec, **kw)
        # compare what does not depend on the sign/rotation freedom of the SVD: pairwise distances of the rows
        out["pairwise"] = np.sqrt(np.maximum(((emb[:, None, :] - emb[None, :, :]) ** 2).sum(-1), 0))
        out["transform"] = np.sqrt(np.maximum(((e.transform(X, vectors=vec)[:, None, :] - emb[None, :, :]) ** 2).sum(-1), 0)) if c["method"] == "HeuristicLinearAlgebra" else out["pairwise"]
        return out
    raise ValueError(fam)


def pack(arrs):
    out = {}
    for k, a in arrs.items():
        a = np.asarray(a)
        flat = a.astype(np.float64).ravel() if a.dtype.kind in "fiub" else np.zeros(0)
        if flat.size <= 3000:
            out[k] = {"shape": list(a.shape), "v": [float("%.10g" % x) if np.isfinite(x) else str(x) for x in flat]}
        else:
            idx = np.linspace(0, flat.size - 1, 2000).astype(int)
            out[k] = {"shape": list(a.shape), "sum": float(np.nansum(flat)), "abs": float(np.nansum(np.abs(flat))), "nnz": int(np.count_nonzero(flat)),
                      "v": [float("%.10g" % x) if np.isfinite(x) else str(x) for x in flat[idx]]}
    return out


def run_family(fam):
    def run(ctx):
        label = ctx.mode + ("#heap" if ctx.args.get("heap") else "")
        n = FAMILIES[fam][0 if ctx.quick else 1]
        for i in ctx.indices(n):
            c = gen(fam, ctx.rng(fam, i))
            cid = "%s:%d" % (fam, i)
            if i < 1 and ctx.mode == "JIT" and not ctx.args.get("heap"):
                ctx.sample({"family": fam, "case": c if len(str(c)) < 1500 else str(c)[:1500]})
            ctx.begin(cid, {"family": fam, "case": c})
            try:
                res = execute(fam, c)
            except (IndexError, UnboundLocalError) as e:
                ctx.end(cid)
                ctx.count("cases_" + label)
                ctx.result(cid, {"exc": type(e).__name__, "msg": str(e)[:200]})
                if ctx.mode in ("BC", "PY"):
                    ctx.violation("C10/%s/%s-under-%s" % (fam, type(e).__name__, {"BC": "boundscheck", "PY": "interpreter"}[ctx.mode]),
                                  "%s in %s mode: %s" % (type(e).__name__, ctx.mode, str(e)[:160]), {"family": fam, "case": c}, None, sig=cid)
                continue
            except Exception as e:
                ctx.end(cid)
                ctx.count("cases_" + label)
                ctx.result(cid, {"exc": type(e).__name__, "msg": str(e)[:200]})
                continue
            ctx.end(cid)
            if res is None:
                ctx.skip("invalid input")
                continue
            ctx.count("cases_" + label)
            ctx.result(cid, {"ok": pack(res), "case": c if label == "JIT" else None})
            vals = np.concatenate([np.asarray(a, dtype=float).ravel() for a in res.values()] + [np.zeros(0)])
            ctx.ok((cid, label), int(np.count_nonzero(np.isfinite(vals) & (vals != 0))) >= 2)
    return run


def replay_case(ctx, c):
    fam = c["family"]
    try:
        res = execute(fam, c["case"])
        print("mode %s returned:" % ctx.mode, {k: np.asarray(v).tolist() if np.asarray(v).size < 60 else np.asarray(v).shape for k, v in (res or {}).items()})
    except Exception as e:
        print("mode %s raised %s: %s" % (ctx.mode, type(e).__name__, e))
        if isinstance(e, (IndexError, UnboundLocalError)) and ctx.mode in ("BC", "PY"):
            ctx.violation("C10/%s/%s-under-%s" % (fam, type(e).__name__, {"BC": "boundscheck", "PY": "interpreter"}[ctx.mode]), str(e)[:160], c, None)


def _cmp(a, b):
    """a, b: packed results. Returns None if equal within tolerance else description."""
    if set(a) != set(b):
        return "different outputs %s vs %s" % (sorted(a), sorted(b))
    atol = 2.5e-7  # 2 ulp of float32 at 1.0
    if "__atol__" in a:
        atol = max(atol, float(a["__atol__"]["v"][0]))
    for k in a:
        if k == "__atol__":
            continue
        if a[k]["shape"] != b[k]["shape"]:
            return "%s: shape %s vs %s" % (k, a[k]["shape"], b[k]["shape"])
        va = np.array([float(x) for x in a[k]["v"]], dtype=float)
        vb = np.array([float(x) for x in b[k]["v"]], dtype=float)
        if va.shape != vb.shape:
            return "%s: size differs" % k
        if va.size == 0:
            continue
        integer = (np.all(np.isfinite(va)) and np.all(va == np.round(va)) and np.all(np.abs(va) < 2**24)
                   and np.all(np.isfinite(vb)) and np.all(vb == np.round(vb)) and np.any(va != 0))
        nan_a, nan_b = ~np.isfinite(va), ~np.isfinite(vb)
        if np.any(nan_a != nan_b):
            return "%s: non-finite pattern differs" % k
        fa, fb = va[~nan_a], vb[~nan_b]
        if integer:
            if not np.array_equal(fa, fb):
                i = int(np.argmax(fa != fb))
                return "%s: integer-valued output differs at %d: %r vs %r" % (k, i, fa[i], fb[i])
        elif not np.allclose(fa, fb, rtol=1e-5, atol=atol):
            i = int(np.argmax(np.abs(fa - fb)))
            return "%s: differs at %d: %.10g vs %.10g" % (k, i, fa[i], fb[i])
    return None


def aggregate(results, counters):
    viols = []
    ncmp = 0
    for cid, by in results.items():
        fam = cid.split(":")[0]
        base = None
        for lab in by:
            if lab.endswith("/JIT"):
                base = lab
        if base is None:
            continue
        for lab, val in by.items():
            if lab == base:
                continue
            mode = lab.split("/")[-1]
            ncmp += 1
            a, b = by[base], val
            part = lab.split("/")[0]
            if "exc" in a and "exc" in b:
                # rejected in both modes (possibly with different exception types): not a memory-safety question;
                # IndexError / UnboundLocalError under the checked modes are reported by the workers themselves
                continue
            if "exc" in a or "exc" in b:
                if a.get("exc") != b.get("exc"):
                    only = mode if "exc" in b and "exc" not in a else ("JIT" if "exc" in a and "exc" not in b else "both-differently")
                    viols.append({"t": "viol", "part": part, "mode": mode.split("#")[0], "key": "C10/%s/raises-only-in-%s/%s" % (fam, only, b.get("exc") or a.get("exc")),
                                  "what": "case %s: JIT -> %s, %s -> %s" % (cid, a.get("exc") or "returns", mode, b.get("exc") or "returns"),
                                  "case": {"cid": cid, "family": fam, "jit": a if "exc" in a else "returned", mode: b if "exc" in b else "returned"}, "detail": None})
                continue
            if "__ambiguous__" in a["ok"] or "__ambiguous__" in b["ok"]:
                counters["skip:threshold-ambiguous-em-case-not-compared"] = counters.get("skip:threshold-ambiguous-em-case-not-compared", 0) + 1
                continue
            d = _cmp(a["ok"], b["ok"])
            if d:
                viols.append({"t": "viol", "part": part, "mode": mode.split("#")[0], "key": "C10/%s/result-differs/JIT-vs-%s" % (fam, mode),
                              "what": "case %s: %s" % (cid, d), "case": {"cid": cid, "family": fam, "case": a.get("case")}, "detail": d})
    counters["cross_mode_comparisons"] = ncmp
    counters["_aggregate_evals"] = 0
    return viols


PARTS = {fam: run_family(fam) for fam in FAMILIES}
CHECKS = {fam: replay_case for fam in FAMILIES}
