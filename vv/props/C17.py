"""C17 — information weights are KL divergences; transform is a fixed column scaling."""
import numpy as np
import scipy.sparse as sp

ID = "C17"
LEVEL = "exploration"
TECHNIQUE = "runtime monitoring: float64 KL-from-the-definition oracle plus layout / permutation / linearity metamorphic relations on the real information_weight and InformationWeightTransformer (JIT prange kernel and interpreter)"
LEVEL_TEXT = ("information_weight and InformationWeightTransformer are run on generated non-negative count matrices in every storage layout the "
              "property names (dense, CSR, CSC, COO with duplicates, unsorted indices, explicit zeros, empty rows/columns); weights are compared "
              "with a float64 evaluation of the KL definition and with themselves under row/column permutation; transform is checked to be "
              "X @ diag(w) with w >= 0, linear and support-preserving. Held = no violation on the executions produced.")
LEVEL_NOTE = "Trusts numpy float64 log/sum for the reference; degenerate inputs whose weights are 0/0 by construction (single row, single-class target, all columns proportional to row masses) are not generated."
RULE = ("case = (count matrix, prior_strength, weight_power, layout set, permutations, optional target); non-trivial when the matrix has >= 2 "
        "non-empty rows and >= 2 columns with different normalised profiles; distinct = hash of matrix + parameters")
ASSUMPTIONS = [
    "posterior q = (c + s*b)/(sum c + s), weight = sum_{b>0,q>0} q log(q/b) with b = row sums / total (property statement)",
    "tolerance |impl-ref| <= 1e-9(1+|ref|); permutation relations 1e-10",
]
MIN_NONTRIVIAL = {"quick": 60, "thorough": 600}
REQUIRED = {"quick": {"kl_compared": 300, "layouts": 300, "transform_checks": 100}, "thorough": {"kl_compared": 3000, "layouts": 3000, "transform_checks": 1000}}


def plan(tier, seed):
    q = tier == "quick"
    return [
        {"part": "iw", "mode": "JIT", "shards": 3 if q else 8, "env": {"NUMBA_NUM_THREADS": "4"}, "weight": 3},
        {"part": "iw", "mode": "PY", "shards": 4 if q else 8},
    ]


def gen_case(r, big):
    n = r.choice([2, 3, 5, 9, 20] + ([60] if big else []))
    m = r.choice([2, 3, 4, 8, 15] + ([40] if big else []))
    dens = r.choice([0.15, 0.4, 0.8])
    A = [[(r.choice([1, 1, 2, 3, 7, 20]) if r.random() < dens else 0) for _ in range(m)] for _ in range(n)]
    if r.random() < 0.3:
        A[r.randrange(n)] = [0] * m  # empty row
    if r.random() < 0.3:
        j = r.randrange(m)
        for row in A:
            row[j] = 0  # empty column
    if r.random() < 0.2:  # non-integer "counts"
        A = [[v * 0.37 for v in row] for row in A]
    # keep it non-degenerate: at least two non-empty rows, and columns not all proportional to the row masses
    nz = [i for i in range(n) if sum(A[i]) > 0]
    while len(nz) < 2:
        i = r.randrange(n)
        A[i][r.randrange(m)] += 1
        nz = [i for i in range(n) if sum(A[i]) > 0]
    A[nz[0]][0] += 3
    A[nz[1]][1] += 2
    ncls = r.choice([2, 3])
    target = [i % ncls for i in range(n)]
    r.shuffle(target)
    sc = r.choice([1, 1, 1, 1, 1e6, 1e12, 1e15])  # huge counts: the prior's share of the posterior underflows relative to the counts
    if sc != 1:
        A = [[v * sc for v in row] for row in A]
    return {"A": A, "prior_strength": r.choice([1e-4, 0.1, 1.0, 5.0]), "weight_power": r.choice([1.0, 2.0]),
            "approx": r.random() < 0.4, "permseed": r.randrange(10**6), "target": target, "zeros_at": [[r.randrange(n), r.randrange(m)] for _ in range(3)]}


def kl_ref(A, s):
    A = np.asarray(A, dtype=np.float64)
    b = A.sum(1) / A.sum()
    out = np.zeros(A.shape[1])
    for j in range(A.shape[1]):
        q = (A[:, j] + s * b) / (A[:, j].sum() + s)
        msk = (q > 0) & (b > 0)
        out[j] = np.sum(q[msk] * np.log(q[msk] / b[msk]))
    return out


def layouts(A, rs, zeros_at):
    A = np.asarray(A, dtype=np.float64)
    L = {"csr": sp.csr_matrix(A), "csc": sp.csc_matrix(A), "coo": sp.coo_matrix(A)}
    # COO with duplicates: split every entry in two
    c = sp.coo_matrix(A)
    half = c.data / 2.0
    L["coo-duplicates"] = sp.coo_matrix((np.concatenate([half, c.data - half]), (np.concatenate([c.row, c.row]), np.concatenate([c.col, c.col]))), shape=A.shape)
    # CSC with unsorted indices
    X = sp.csc_matrix(A)
    for j in range(A.shape[1]):
        lo, hi = X.indptr[j], X.indptr[j + 1]
        p = rs.permutation(hi - lo)
        X.indices[lo:hi] = X.indices[lo:hi][p]
        X.data[lo:hi] = X.data[lo:hi][p]
    X.has_sorted_indices = False
    L["csc-unsorted"] = X
    # CSR with unsorted indices
    Y = sp.csr_matrix(A)
    for i in range(A.shape[0]):
        lo, hi = Y.indptr[i], Y.indptr[i + 1]
        p = rs.permutation(hi - lo)
        Y.indices[lo:hi] = Y.indices[lo:hi][p]
        Y.data[lo:hi] = Y.data[lo:hi][p]
    Y.has_sorted_indices = False
    L["csr-unsorted"] = Y
    # explicit zeros
    Z = sp.lil_matrix(A)
    Zc = Z.tocoo()
    zr = [z[0] for z in zeros_at if A[z[0], z[1]] == 0]
    zc = [z[1] for z in zeros_at if A[z[0], z[1]] == 0]
    E = sp.coo_matrix((np.concatenate([Zc.data, np.zeros(len(zr))]), (np.concatenate([Zc.row, zr]).astype(int), np.concatenate([Zc.col, zc]).astype(int))), shape=A.shape)
    L["csc-explicit-zeros"] = sp.csc_matrix(E) if len(zr) == 0 else _keep_zeros(E).tocsc()
    return L


def _keep_zeros(E):
    # coo->csr conversion keeps explicit zeros (sum_duplicates does not eliminate them)
    return E.tocsr()


def _sig(c):
    return (len(c["A"]), len(c["A"][0]), c["prior_strength"], c["weight_power"], c["approx"], hash(str(c["A"])) % 10**9)


def check_case(ctx, c):
    from vectorizers.transformers import InformationWeightTransformer, information_weight

    A = np.asarray(c["A"], dtype=np.float64)
    n, m = A.shape
    s = c["prior_strength"]
    rs = np.random.RandomState(c["permseed"])
    ref = kl_ref(A, s)
    ok = [True]

    def viol(clause, what, detail=None):
        ok[0] = False
        ctx.violation("C17/%s" % clause, what, c, detail, sig=_sig(c))

    if float(np.max(np.abs(ref))) < 1e-12:
        return ctx.skip("degenerate: every column is proportional to the row masses (weights are 0/0 by construction)")
    L = layouts(A, rs, c["zeros_at"])
    base = None
    for name, X in L.items():
        snap = (X.data.copy(), getattr(X, "indices", np.zeros(0)).copy()) if hasattr(X, "indices") else None
        try:
            w = information_weight(X, prior_strength=s)
        except Exception as e:
            viol("information_weight/raises/%s/%s" % (name, type(e).__name__), "information_weight raised on layout %s: %s" % (name, str(e)[:200]))
            continue
        ctx.count("layouts")
        ctx.count("kl_compared", m)
        if not np.all(np.isfinite(w)):
            viol("information_weight/not-finite/%s" % name, "non-finite weight for layout %s" % name, {"w": w})
            continue
        if np.any(w < -1e-12):
            viol("information_weight/negative/%s" % name, "negative KL weight for layout %s" % name, {"w": w})
        if not np.all(np.abs(w - ref) <= 1e-9 * (1 + np.abs(ref))):
            viol("information_weight/differs-from-KL/%s" % name, "weights differ from the KL definition (layout %s)" % name,
                 {"got": w, "ref": ref, "maxdiff": float(np.max(np.abs(w - ref)))})
        if base is None:
            base = w
        elif not np.allclose(w, base, rtol=1e-10, atol=1e-12):
            viol("information_weight/layout-dependence/%s" % name, "weights depend on the storage layout (%s vs csr)" % name, {"got": w, "csr": base})
    # permutations (exact, approximate, supervised)
    rp = rs.permutation(n)
    cp = rs.permutation(m)
    tgt = np.asarray(c["target"], dtype=np.int64)
    for variant in ("exact", "approx", "supervised"):
        kw = {"prior_strength": s}
        if variant == "approx":
            kw["approximate_prior"] = True
        X = sp.csr_matrix(A)
        try:
            if variant == "supervised":
                # every class needs positive mass, otherwise the weight is 0/0 by construction
                masses = [A[tgt == k].sum() for k in range(int(tgt.max()) + 1)]
                if min(masses) <= 0:
                    continue
                w0 = information_weight(X, target=tgt, **kw)
                wr = information_weight(sp.csr_matrix(A[rp]), target=tgt[rp], **kw)
                wc = information_weight(sp.csr_matrix(A[:, cp]), target=tgt, **kw)
            else:
                w0 = information_weight(X, **kw)
                wr = information_weight(sp.csr_matrix(A[rp]), **kw)
                wc = information_weight(sp.csr_matrix(A[:, cp]), **kw)
        except Exception as e:
            viol("information_weight/%s/raises/%s" % (variant, type(e).__name__), "raised: %s" % str(e)[:200])
            continue
        ctx.count("permutation_checks")
        if not np.all(np.isfinite(w0)):
            viol("information_weight/%s/not-finite" % variant, "non-finite weights", {"w": w0})
            continue
        if not np.allclose(w0, wr, rtol=1e-10, atol=1e-12):
            viol("information_weight/%s/row-permutation" % variant, "weights change under a row permutation", {"w": w0, "w_perm": wr})
        if not np.allclose(w0[cp], wc, rtol=1e-10, atol=1e-12):
            viol("information_weight/%s/column-permutation" % variant, "weights do not permute with the columns", {"w": w0[cp], "w_perm": wc})
    # transformer
    for Xin_name in ("dense", "csr"):
        Xin = A.copy() if Xin_name == "dense" else sp.csr_matrix(A)
        est = InformationWeightTransformer(prior_strength=s, approx_prior=c["approx"], weight_power=c["weight_power"])
        try:
            r = est.fit(Xin)
            w = np.asarray(est.information_weights_, dtype=float)
            T = est.transform(Xin)
        except Exception as e:
            viol("transformer/raises/%s/%s" % (Xin_name, type(e).__name__), "fit/transform raised: %s" % str(e)[:200])
            continue
        ctx.count("transform_checks")
        Td = T.toarray() if sp.issparse(T) else np.asarray(T)
        if w.shape != (m,) or not np.all(np.isfinite(w)) or np.any(w < 0):
            viol("transformer/weights-negative-or-nonfinite", "learned weights are not finite non-negative", {"w": w})
            continue
        if not c["approx"]:
            if ref.mean() > 0:
                wexp = np.maximum(ref / ref.mean(), 0) ** c["weight_power"]
                if not np.allclose(w, wexp, rtol=1e-8, atol=1e-10):
                    viol("transformer/weights-differ-from-normalised-KL", "information_weights_ != (KL/mean KL)^power", {"w": w, "expected": wexp})
        if not np.allclose(Td, A * w[None, :], rtol=1e-12, atol=1e-12 * max(1.0, float(np.abs(A).max()))):
            viol("transformer/not-a-column-scaling", "transform(X) != X @ diag(information_weights_)", {"maxdiff": float(np.max(np.abs(Td - A * w[None, :])))})
        if np.any((Td != 0) & (A == 0)):
            viol("transformer/creates-nonzero", "transform created a non-zero where the input had none")
        # linearity on fresh inputs
        B = rs.randint(0, 4, size=A.shape).astype(float)
        a_, b_ = 2.0, 3.0
        mk = (lambda M: M) if Xin_name == "dense" else sp.csr_matrix
        d = lambda M: M.toarray() if sp.issparse(M) else np.asarray(M)
        lhs = d(est.transform(mk(a_ * A + b_ * B)))
        rhs = a_ * d(est.transform(mk(A))) + b_ * d(est.transform(mk(B)))
        if not np.allclose(lhs, rhs, rtol=1e-12, atol=1e-12 * max(1.0, float(np.abs(A).max()))):
            viol("transformer/not-linear", "transform(aX+bY) != a T(X) + b T(Y)")
        # history: fit -> transform -> fit on other data -> transform must use the *new* weights
        try:
            A2 = A[:, ::-1].copy() + (B > 1)
            est.fit(mk(A2))
            w2 = np.asarray(est.information_weights_, dtype=float)
            T2 = d(est.transform(mk(A2)))
            ctx.count("refit_transform_checks")
            if np.all(np.isfinite(w2)) and not np.allclose(T2, A2 * w2[None, :], rtol=1e-12, atol=1e-12 * max(1.0, float(np.abs(A2).max()))):
                viol("transformer/stale-weights-after-refit", "after a second fit, transform does not scale by the newly learned information_weights_")
            est.fit(Xin)
            w = np.asarray(est.information_weights_, dtype=float)
        except Exception as e:
            viol("transformer/refit-raises/%s" % type(e).__name__, "second fit / transform raised %s" % str(e)[:160])
        w_before = w.copy()
        est.transform(mk(B))
        if not np.array_equal(w_before, est.information_weights_):
            viol("transformer/weights-change-on-transform", "information_weights_ changed during transform")
        if r is not est:
            viol("transformer/fit-does-not-return-self", "fit returned %r" % type(r))
    if ok[0]:
        prof = A / np.maximum(A.sum(0, keepdims=True), 1e-300)
        nt = (A.sum(1) > 0).sum() >= 2 and m >= 2 and not np.allclose(prof[:, 0], prof[:, 1])
        ctx.ok(_sig(c), bool(nt))


def run(ctx):
    n = ctx.pick(120, 1000) if ctx.mode == "JIT" else ctx.pick(160, 1600)
    for i in ctx.indices(n):
        c = gen_case(ctx.rng(i), big=ctx.mode == "JIT")
        if i < 2:
            ctx.sample(c)
        check_case(ctx, c)


PARTS = {"iw": run}
CHECKS = {"iw": check_case}
