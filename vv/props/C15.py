"""C15 — labelled-tree co-occurrence counts kernel-weighted walks between labels."""
import collections

import numpy as np
import scipy.sparse as sp

from vv.ref import tree as T

ID = "C15"
LEVEL = "exploration"
TECHNIQUE = "runtime monitoring: explicit walk enumeration on independently contracted labelled forests as reference model; token-vs-tree metamorphic oracle on path graphs"
LEVEL_TEXT = ("LabelledTreeCooccurrenceVectorizer is run on generated forests (paths, stars, caterpillars, random, isolated nodes, 1-2 distinct labels, "
              "repeated labels) over radius / kernel (offset, normalize, power) / orientation / pruning / masking, and every cell is compared with "
              "an explicit enumeration of directed walks on a forest the harness contracts itself; on path graphs the result is also compared with "
              "TokenCooccurrenceVectorizer on the label sequences. Held = no violation on the executions produced.")
LEVEL_NOTE = "Adjacency is read as parent -> child; kernel weight of a walk of k steps is the k-th entry of the kernel evaluated on a window of length window_radius."
RULE = ("case = (forest, radius, kernel, orientation, pruning/masking); non-trivial when the expected matrix has >= 2 non-zero cells and some tree "
        "has depth >= 2; distinct = hash of the case")
ASSUMPTIONS = [
    "labels are strings (the vectorizer builds column names by string concatenation)",
    "removing a label contracts edges: each removed node's children are re-attached to its nearest kept ancestor",
]
MIN_NONTRIVIAL = {"quick": 100, "thorough": 1000}
REQUIRED = {"quick": {"matrices_compared": 300, "pruned_compared": 150, "path_vs_token": 60}, "thorough": {"matrices_compared": 3000, "pruned_compared": 1500, "path_vs_token": 600}}


def plan(tier, seed):
    q = tier == "quick"
    return [
        {"part": "tree", "mode": "PY", "shards": 6 if q else 12},
        {"part": "tree", "mode": "JIT", "shards": 2 if q else 4, "weight": 3},
    ]


def rand_parents(r, n, kind):
    par = [-1] * n
    for i in range(1, n):
        if kind == "path":
            par[i] = i - 1
        elif kind == "star":
            par[i] = 0
        elif kind == "caterpillar":
            par[i] = i - 1 if i % 2 == 1 or i < 2 else i - 2
        elif kind == "isolated":
            par[i] = -1
        else:
            par[i] = r.randrange(0, i)
    if kind == "forest" and n > 2:
        par[r.randrange(1, n)] = -1
    return par


def gen_case(r):
    nlab = r.choice([1, 2, 2, 3, 5])
    trees = []
    for _ in range(r.randint(1, 5)):
        n = r.choice([1, 2, 3, 5, 9, 14])
        kind = r.choice(["path", "star", "random", "random", "forest", "caterpillar", "isolated"])
        par = rand_parents(r, n, kind)
        if r.random() < 0.3:  # node order need not be topological
            perm = list(range(n))
            r.shuffle(perm)
            inv = {old: new for new, old in enumerate(perm)}
            par2 = [-1] * n
            for old in range(n):
                par2[inv[old]] = -1 if par[old] == -1 else inv[par[old]]
            par = par2
        trees.append({"par": par, "labels": ["L%d" % r.randrange(nlab) for _ in range(n)]})
    cnt = collections.Counter(l for t in trees for l in t["labels"])
    c = {"trees": trees, "R": r.randint(1, 5), "kernel": r.choice(["flat", "harmonic", "geometric"]),
         "orientation": r.choice(["before", "after", "symmetric", "directional"]), "offset": r.choice([0, 0, 1, 2]),
         "normalize": r.random() < 0.2, "power": r.choice([0.9, 0.5]), "prune": r.choice([None, "min_occurrences", "ignored", "max_occurrences"]),
         "mode": r.choice(["delete", "mask", "nullify"]), "adj": r.choice(["csr", "csr", "lil", "csr-int", "lil-int"])}
    if c["prune"] == "min_occurrences":
        c["bound"] = r.choice(sorted(cnt.values()))
    elif c["prune"] == "max_occurrences":
        c["bound"] = r.choice(sorted(cnt.values()))
    elif c["prune"] == "ignored":
        c["bound"] = [r.choice(sorted(cnt))]
    return c


def to_adj(par, fmt="csr"):
    n = len(par)
    rr = [p for p in par if p != -1]
    cc = [i for i, p in enumerate(par) if p != -1]
    dt = np.int64 if fmt.endswith("-int") else np.float64
    A = sp.csr_matrix((np.ones(len(rr), dtype=dt), (rr, cc)), shape=(n, n))
    return A.tolil() if fmt.startswith("lil") else A


def _sig(c):
    return hash(str(c)) % 10**12


def _depth(par):
    d = 0
    for i in range(len(par)):
        k, p = 0, par[i]
        while p != -1 and k < 50:
            k += 1
            p = par[p]
        d = max(d, k)
    return d


def check_case(ctx, c):
    import vectorizers as V

    trees = [(t["par"], t["labels"]) for t in c["trees"]]
    fmt = c.get("adj", "csr")
    X = [(to_adj(p, fmt), np.array(l)) for p, l in trees]
    X0 = [A.toarray().copy() for A, _ in X]
    kargs = {}
    if c["offset"] or c["normalize"]:
        kargs = {"normalize": c["normalize"], "offset": c["offset"]}
    if c["kernel"] == "geometric" and (c["power"] != 0.9 or kargs):
        kargs = {"normalize": c["normalize"], "offset": c["offset"], "power": c["power"]}
    power = c["power"] if (c["kernel"] == "geometric" and "power" in kargs) else 0.9
    w = T.kweights(c["kernel"], c["R"], c["offset"], power, c["normalize"])
    name = "LabelledTreeCooccurrenceVectorizer"
    ok = [True]

    def viol(clause, what, detail=None):
        ok[0] = False
        ctx.violation("C15/%s/%s" % (name, clause), what, c, detail, sig=_sig(c))

    # ---------- unpruned
    est = V.LabelledTreeCooccurrenceVectorizer(window_radius=c["R"], kernel_function=c["kernel"], window_orientation=c["orientation"], kernel_args=kargs)
    try:
        M = est.fit_transform(X).toarray()
    except Exception as e:
        viol("raises/%s" % type(e).__name__, "fit_transform raised %s: %s" % (type(e).__name__, str(e)[:200]))
        return
    ld = dict(est.token_label_dictionary_)
    labs = sorted(set(l for _, ls in trees for l in ls))
    if ld != {l: i for i, l in enumerate(labs)}:
        viol("label-dictionary", "token_label_dictionary_ is not the sorted label set", ld)
        return
    A = T.tree_ref(trees, ld, c["R"], w)
    exp = T.orient(A, c["orientation"])
    ctx.count("matrices_compared")
    if M.shape != exp.shape or not np.allclose(M, exp, rtol=1e-6, atol=1e-9):
        nl = "labels-%s" % ("1" if len(labs) == 1 else "2" if len(labs) == 2 else "3+")
        viol("walk-counts/%s/%s" % (c["orientation"], nl), "matrix differs from the weighted walk counts", {"got": M.tolist(), "expected": exp.tolist(), "weights": w})
        return
    if c["orientation"] == "directional":
        cl = dict(est.column_label_dictionary_)
        n = len(ld)
        if cl != {**{"pre_" + l: i for l, i in ld.items()}, **{"post_" + l: i + n for l, i in ld.items()}}:
            viol("column-labels", "directional column labels are not pre_* then post_*", cl)
            return
    # transform of the same forest gives the same matrix
    try:
        M2 = est.transform(X).toarray()
        if M2.shape != M.shape or not np.allclose(M2, M, rtol=1e-9, atol=1e-12):
            viol("transform-differs-from-fit", "transform(X) differs from fit_transform(X)")
            return
    except Exception as e:
        viol("transform-raises/%s" % type(e).__name__, "transform raised %s: %s" % (type(e).__name__, str(e)[:160]))
        return
    # ---------- pruning / masking
    if c["prune"]:
        cnt = collections.Counter(l for _, ls in trees for l in ls)
        if c["prune"] == "min_occurrences":
            keep = {l for l, k in cnt.items() if k >= c["bound"]}
            kw = {"min_occurrences": c["bound"]}
        elif c["prune"] == "max_occurrences":
            keep = {l for l, k in cnt.items() if k <= c["bound"]}
            kw = {"max_occurrences": c["bound"]}
        else:
            keep = set(cnt) - set(c["bound"])
            kw = {"ignored_tokens": set(c["bound"])}
        mode = c["mode"]
        if mode != "delete":
            kw["mask_string"] = "[M]"
        if mode == "nullify":
            kw["nullify_mask"] = True
        est = V.LabelledTreeCooccurrenceVectorizer(window_radius=c["R"], kernel_function=c["kernel"], window_orientation=c["orientation"], kernel_args=kargs, **kw)
        try:
            M = est.fit_transform(X).toarray()
        except Exception as e:
            if not keep:
                ctx.skip("rejected input: every label pruned")
            else:
                viol("prune-%s-raises/%s" % (mode, type(e).__name__), "fit_transform with pruning raised %s: %s" % (type(e).__name__, str(e)[:160]))
            return
        ld = dict(est.token_label_dictionary_)
        exp_ld = {l: i for i, l in enumerate(sorted(keep))}
        if mode != "delete":
            exp_ld["[M]"] = len(keep)
        if ld != exp_ld:
            viol("prune-%s/label-dictionary" % mode, "label dictionary after pruning/masking differs", {"got": ld, "expected": exp_ld})
            return
        A = T.tree_ref(trees, ld, c["R"], w, keepset=keep, mask=None if mode == "delete" else "[M]", nullify=(mode == "nullify"))
        exp = T.orient(A, c["orientation"])
        ctx.count("pruned_compared")
        if M.shape != exp.shape or not np.allclose(M, exp, rtol=1e-6, atol=1e-9):
            viol("prune-%s/walk-counts" % mode, "matrix after %s differs from walks on the %s forest" % (mode, "contracted" if mode == "delete" else "relabelled"),
                 {"got": M.tolist(), "expected": exp.tolist(), "keep": sorted(keep)})
            return
    # ---------- path graphs vs TokenCooccurrenceVectorizer
    if c["orientation"] != "symmetric":
        r = np.random.RandomState(_sig(c) % (2**31))
        nl = max(2, len(labs))
        paths = [["L%d" % r.randint(nl) for _ in range(n)] for n in r.randint(1, 9, size=r.randint(1, 4))]
        if len(set(l for p in paths for l in p)) >= 1 and sum(len(p) for p in paths) >= 2:
            Xp = [(to_adj(list(range(-1, len(p) - 1))), np.array(p)) for p in paths]
            try:
                vt = V.TokenCooccurrenceVectorizer(window_radii=c["R"], kernel_functions=c["kernel"], window_orientations=c["orientation"], normalize_windows=False,
                                                   kernel_args=kargs if kargs else None)
                a = vt.fit_transform(paths).toarray()
                vtree = V.LabelledTreeCooccurrenceVectorizer(window_radius=c["R"], kernel_function=c["kernel"], window_orientation=c["orientation"], kernel_args=kargs)
                b = vtree.fit_transform(Xp).toarray()
            except Exception as e:
                viol("path-vs-token-raises/%s" % type(e).__name__, "path/token comparison raised %s: %s" % (type(e).__name__, str(e)[:160]), {"paths": paths})
                return
            ctx.count("path_vs_token")
            # token kernels with normalize=True normalise over the *clipped* window; only compare when unnormalised
            if not c["normalize"] and (a.shape != b.shape or not np.allclose(a, b, rtol=1e-5, atol=1e-7)):
                viol("path-differs-from-token-vectorizer", "on path graphs the tree matrix differs from TokenCooccurrenceVectorizer", {"paths": paths, "tree": b.tolist(), "token": a.tolist()})
                return
    # the caller's adjacency matrices must come back untouched (they are re-used by the later fits above)
    for (A, _), A0 in zip(X, X0):
        if not np.array_equal(A.toarray(), A0):
            viol("modifies-adjacency/%s" % fmt, "a fit changed the caller's adjacency matrix (%s input)" % fmt)
            return
    if ok[0]:
        ctx.ok(_sig(c), np.count_nonzero(exp) >= 2 and max(_depth(p) for p, _ in trees) >= 2)


def run(ctx):
    n = ctx.pick(500, 5000) if ctx.mode == "PY" else ctx.pick(120, 1000)
    for i in ctx.indices(n):
        c = gen_case(ctx.rng(i))
        if i < 2:
            ctx.sample(c)
        check_case(ctx, c)


PARTS = {"tree": run}
CHECKS = {"tree": check_case}
