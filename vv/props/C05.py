"""C05 — the learned vocabulary is exactly the tokens meeting every pruning constraint."""
import collections
import re
from fractions import Fraction

import numpy as np

ID = "C05"
LEVEL = "exploration"
TECHNIQUE = "runtime monitoring: exact Counter/Fraction model of the pruning rules as oracle on fitted dictionaries of 7 estimators; exhaustive (count,total) enumeration through the real pruning functions; near-tie probes at scale"
LEVEL_TEXT = ("The fitted dictionaries of the four co-occurrence vectorizers, NgramVectorizer (token and n-gram stage), SkipgramVectorizer and the tree "
              "vectorizer are compared with an exact integer/rational model on generated corpora and constraint combinations, with frequency bounds "
              "placed exactly on attainable ratios c/T ('count equal to the bound is kept') or midway between them. The (count,total) space up to "
              "T=160 (quick) / 1200 (thorough) is enumerated completely through the real construct/prune functions (exhaustive for that sub-space), "
              "and near-ties (counts c and c-1) are probed in corpora up to 9e6 tokens. The n-gram pruning stage is isolated (token stage provably idle) under occurrence, frequency and document-level bounds; a bound is also given as occurrences and frequency at once. Held = no violation on the executions produced.")
LEVEL_NOTE = "Frequency bounds are only generated as exact c/T (Python float division) or midpoints between attainable ratios, so the expected outcome never depends on how a bound rounds."
RULE = ("case = (corpus, constraint combination, estimator); non-trivial when the constraints prune at least one token and keep at least one; "
        "distinct = hash of corpus + constraints + estimator. Exhaustive part: every (count c, total T), 1<=c<=T<=bound, x {min/max occurrences, min/max frequency} x {c, c-1, c+1}")
EXHAUSTIVE_NOTE = "all (count,total) pairs with total <= 160 (quick) / 1200 (thorough) through construct_token_dictionary_and_frequency + prune_token_dictionary; exhaustive for that sub-space only"
ASSUMPTIONS = [
    "frequency = count / total tokens of the corpus (all tokens, before pruning); document frequency = documents containing the token / number of documents (empty documents count)",
    "max_unique_tokens=k: at most k tokens, none strictly less frequent than a dropped candidate, nothing dropped when <= k candidates exist (the statement does not require 'as many as possible')",
    "n-gram second stage applies the same occurrence/frequency/document bounds to n-gram counts over kept-token sequences",
    "NgramCooccurrenceVectorizer(ngram_size=1) re-applies frequency bounds to its unigram rows relative to the kept-token total; that estimator is therefore only given occurrence / document bounds",
    "the tree vectorizer is only given string labels (it builds column names by string concatenation)",
]
MIN_NONTRIVIAL = {"quick": 150, "thorough": 1500}
REQUIRED = {"quick": {"dictionaries_compared": 800, "exhaustive_pairs": 12000, "near_ties": 6, "ngram_stage": 80},
            "thorough": {"dictionaries_compared": 6000, "exhaustive_pairs": 700000, "near_ties": 10, "ngram_stage": 800}}


def plan(tier, seed):
    q = tier == "quick"
    return [
        {"part": "vocab", "mode": "PY", "shards": 8 if q else 12},
        {"part": "vocab", "mode": "JIT", "shards": 7, "weight": 4},
        {"part": "exh", "mode": "PY", "shards": 4 if q else 14},
        {"part": "ties", "mode": "PY", "shards": 1, "weight": 2},
    ]


# ------------------------------------------------------------------ exact model
def model(docs, P):
    """docs: list of token lists. P: constraint dict. Returns (candidates sorted, counts, doc counts, T, D)."""
    flat = [t for d in docs for t in d]
    T, D = len(flat), len(docs)
    cnt = collections.Counter(flat)
    dcnt = collections.Counter(t for d in docs for t in set(d))
    keep = []
    for t, c in cnt.items():
        ok = True
        if P.get("min_occurrences") is not None and c < P["min_occurrences"]:
            ok = False
        if P.get("max_occurrences") is not None and c > P["max_occurrences"]:
            ok = False
        for name, val, tot in (("frequency", c, T), ("document_frequency", dcnt[t], D)):
            lo, hi = P.get("min_" + name), P.get("max_" + name)
            if lo is not None:
                # exact: keep iff val >= c0 ; mid: keep iff val >= c0+1
                if val < lo["c"] + (1 if lo["kind"] == "mid" else 0):
                    ok = False
            if hi is not None:
                if val > hi["c"]:
                    ok = False
        if P.get("min_document_occurrences") is not None and dcnt[t] < P["min_document_occurrences"]:
            ok = False
        if P.get("max_document_occurrences") is not None and dcnt[t] > P["max_document_occurrences"]:
            ok = False
        if P.get("excluded_tokens") and t in P["excluded_tokens"]:
            ok = False
        if P.get("excluded_token_regex") and re.fullmatch(P["excluded_token_regex"], str(t)):
            ok = False
        if ok:
            keep.append(t)
    return sorted(keep), cnt, dcnt, T, D


def fbound(b, total):
    """float value of a generated frequency bound: exactly c/total, or the midpoint between c/total and (c+1)/total."""
    if b is None:
        return None
    if b["kind"] == "exact":
        return b["c"] / total
    return float(Fraction(2 * b["c"] + 1, 2 * total))


def gen_case(r):
    vocab = r.randint(2, 12)
    kind = r.choice(["str", "str", "int", "float"])
    mk = {"str": lambda i: "t%d" % i, "int": lambda i: int(i * 3 + 1), "float": lambda i: float(i) + 0.5}[kind]
    ndoc = r.randint(1, 8)
    docs = []
    for _ in range(ndoc):
        L = r.choice([0, 1, 2, 5, 12, 25])
        docs.append([mk(min(int(r.paretovariate(1.2)) - 1, vocab - 1)) for _ in range(L)])
    if not any(docs):
        docs[0] = [mk(0), mk(1), mk(0)]
    flat = [t for d in docs for t in d]
    cnt = collections.Counter(flat)
    dcnt = collections.Counter(t for d in docs for t in set(d))
    T, D = len(flat), len(docs)
    cvals, dvals = sorted(set(cnt.values())), sorted(set(dcnt.values()))
    P = {}
    style = r.choice(["occ", "freq", "mixed"])
    if r.random() < 0.5:
        c = r.choice(cvals + [cvals[-1] + 1])
        if style == "occ" or (style == "mixed" and r.random() < 0.5):
            P["min_occurrences"] = c
        else:
            P["min_frequency"] = {"kind": r.choice(["exact", "mid"]), "c": min(c, T) if r.random() < 0.8 else max(0, c - 1)}
    if r.random() < 0.4:
        c = r.choice(cvals)
        if style == "occ" or (style == "mixed" and r.random() < 0.5):
            P["max_occurrences"] = c
        else:
            P["max_frequency"] = {"kind": r.choice(["exact", "mid"]), "c": c}
    if r.random() < 0.3:
        c = r.choice(dvals + [D])
        if r.random() < 0.5:
            P["min_document_occurrences"] = c
        else:
            P["min_document_frequency"] = {"kind": r.choice(["exact", "mid"]), "c": min(c, D)}
            if P["min_document_frequency"]["kind"] == "mid" and P["min_document_frequency"]["c"] >= D:
                P["min_document_frequency"]["kind"] = "exact"
    if r.random() < 0.3:
        c = r.choice(dvals)
        if r.random() < 0.5:
            P["max_document_occurrences"] = c
        else:
            P["max_document_frequency"] = {"kind": r.choice(["exact", "mid"]), "c": c}
            if P["max_document_frequency"]["kind"] == "mid" and c >= D:
                P["max_document_frequency"]["kind"] = "exact"
    for k in ("min_frequency", "max_frequency"):
        if k in P and P[k]["kind"] == "mid" and P[k]["c"] >= T:
            P[k]["kind"] = "exact"
    if r.random() < 0.25:
        P["excluded_tokens"] = [mk(r.randrange(vocab))]
    if kind == "str" and r.random() < 0.25:
        P["excluded_token_regex"] = r.choice(["t[0-2]", "t1", "t", "t1.*", "[a-z]\\d"])
    mut = r.randint(1, vocab) if r.random() < 0.3 else None
    est = r.choice(["Token", "Token", "Timed", "MultiSet", "NgramCooc", "Ngram", "Skipgram"] + (["Tree"] if kind == "str" else []))
    if est == "NgramCooc":
        # its unigram rows are re-pruned with frequencies relative to the *kept* total; only bounds whose meaning
        # does not depend on the total are unambiguous for it (ASSUMPTIONS)
        for k in ("min_frequency", "max_frequency"):
            if k in P:
                b = P.pop(k)
                P[k.replace("frequency", "occurrences")] = b["c"] + (1 if (b["kind"] == "mid" and k.startswith("min")) else 0)
    return {"docs": docs, "P": P, "max_unique_tokens": mut, "estimator": est, "kind": kind,
            "shuffle_seed": r.randrange(10**6), "ngram_size": r.choice([2, 2, 3])}


def _kw(c, T, D):
    P = c["P"]
    kw = {}
    for k, v in P.items():
        if k.endswith("document_frequency"):
            kw[k] = fbound(v, D)
        elif k.endswith("frequency"):
            kw[k] = fbound(v, T)
        elif k == "excluded_tokens":
            kw[k] = set(v)
        else:
            kw[k] = v
    if c["max_unique_tokens"] is not None:
        kw["max_unique_tokens"] = c["max_unique_tokens"]
    return kw


def _build(c, docs, kw, V):
    e = c["estimator"]
    if e == "Token":
        return V.TokenCooccurrenceVectorizer(window_radii=2, **kw), docs, "token_label_dictionary_"
    if e == "Timed":
        return V.TimedTokenCooccurrenceVectorizer(window_radii=2, **kw), [[(t, float(i)) for i, t in enumerate(d)] for d in docs], "token_label_dictionary_"
    if e == "MultiSet":
        data = [[d[i : i + 3] for i in range(0, len(d), 3)] for d in docs]
        return V.MultiSetCooccurrenceVectorizer(window_radii=2, **kw), data, "token_label_dictionary_"
    if e == "NgramCooc":
        return V.NgramCooccurrenceVectorizer(window_radii=2, ngram_size=1, **kw), docs, "token_label_dictionary_"
    if e == "Ngram":
        return V.NgramVectorizer(ngram_size=1, **kw), docs, "column_label_dictionary_"
    if e == "Skipgram":
        kw = dict(kw)
        if "excluded_tokens" in kw:
            kw["ignored_tokens"] = kw.pop("excluded_tokens")
        return V.SkipgramVectorizer(window_radius=2, **kw), docs, "_token_dictionary_"
    raise ValueError(e)


def _tree_data(docs):
    import scipy.sparse as sp

    out = []
    for d in docs:
        n = len(d)
        A = sp.lil_matrix((n, n))
        for i in range(n - 1):
            A[i, i + 1] = 1
        out.append((A.tocsr(), np.array(d, dtype=object) if False else list(d)))
    return out


def _sig(c):
    return hash(str(c)) % 10**12


def check_case(ctx, c):
    import vectorizers as V

    docs = c["docs"]
    e = c["estimator"]
    if e == "Tree":
        docs = [d for d in docs if d]
    cc = dict(c, docs=docs)
    exp, cnt, dcnt, T, D = model(docs, c["P"])
    kw = _kw(c, T, D)

    def viol(clause, what, detail=None):
        ctx.violation("C05/%s/%s" % (e, clause), what, cc, detail, sig=_sig(c))

    if e == "Tree":
        kw2 = {}
        for k, v in kw.items():
            k2 = k.replace("document", "tree")
            if k2 == "max_unique_tokens":
                return ctx.skip("tree vectorizer has no max_unique_tokens")
            kw2["ignored_tokens" if k2 == "excluded_tokens" else k2] = v
        est = V.LabelledTreeCooccurrenceVectorizer(window_radius=2, **kw2)
        data, attr = _tree_data(docs), "token_label_dictionary_"
    else:
        est, data, attr = _build(c, docs, kw, V)
    k = c["max_unique_tokens"]
    try:
        est.fit(data)
    except ValueError as ex:
        if len(exp) == 0 or (k is not None and len(exp) > k):
            # an empty vocabulary is a legal outcome: no candidate at all, or max_unique_tokens cut everything (ties at the cut)
            ctx.ok(("empty-vocabulary", _sig(c)), False)
            ctx.count("empty_vocabulary_valueerror")
            if len(exp) and len(set(cnt[t] for t in exp)) == len(exp):
                ctx.count("observation:max_unique_tokens-empties-vocabulary-without-ties")
            return
        viol("fit-raises/ValueError", "fit raised ValueError although %d tokens satisfy every constraint: %s" % (len(exp), str(ex)[:150]), {"expected": exp})
        return
    except Exception as ex:
        viol("fit-raises/%s" % type(ex).__name__, "fit raised %s: %s" % (type(ex).__name__, str(ex)[:200]), {"expected": exp})
        return
    d = dict(getattr(est, attr))
    ctx.count("dictionaries_compared")
    got = sorted(d)
    if sorted(d.values()) != list(range(len(d))) or [d[t] for t in got] != list(range(len(d))):
        viol("indices-not-sorted-contiguous", "indices are not 0..n-1 in sorted token order", {"dictionary": d})
        return
    if k is None:
        if got != exp:
            missing = [t for t in exp if t not in d]
            extra = [t for t in got if t not in exp]
            which = []
            if missing:
                which.append("drops-token-meeting-constraints")
            if extra:
                which.append("keeps-token-violating-constraints")
            viol("+".join(which), "vocabulary differs from the exact model", {"missing": missing, "extra": extra, "counts": dict(cnt), "doc_counts": dict(dcnt), "T": T, "D": D, "kwargs": kw})
            return
    else:
        kept, dropped = set(got), set(exp) - set(got)
        if not kept <= set(exp):
            viol("keeps-token-violating-constraints", "max_unique_tokens: kept a non-candidate", {"extra": sorted(kept - set(exp))})
            return
        if len(kept) > k:
            viol("max_unique_tokens-exceeded", "%d tokens kept, max_unique_tokens=%d" % (len(kept), k))
            return
        if any(cnt[a] < cnt[b] for a in kept for b in dropped):
            viol("max_unique_tokens-keeps-less-frequent", "a kept token is strictly less frequent than a dropped candidate", {"kept": {t: cnt[t] for t in kept}, "dropped": {t: cnt[t] for t in dropped}})
            return
        if len(exp) <= k and dropped:
            viol("max_unique_tokens-drops-needlessly", "only %d candidates for max_unique_tokens=%d, yet %s dropped" % (len(exp), k, sorted(dropped)))
            return
        if len(exp) > k and len(kept) < k and len(set(cnt[t] for t in exp)) == len(exp):
            ctx.count("observation:max_unique_tokens-keeps-fewer-than-k-without-ties")
    # order independence
    rs = np.random.RandomState(c["shuffle_seed"])
    sdocs = [list(np.array(dd, dtype=object)[rs.permutation(len(dd))]) if len(dd) else [] for dd in docs]
    sdocs = [sdocs[i] for i in rs.permutation(len(sdocs))]
    if e == "Tree":
        est2, data2 = V.LabelledTreeCooccurrenceVectorizer(window_radius=2, **kw2), _tree_data(sdocs)
    else:
        est2, data2, _ = _build(c, sdocs, kw, V)
    try:
        est2.fit(data2)
        d2 = dict(getattr(est2, attr))
        if d2 != d:
            viol("order-dependence", "dictionary changes when documents / tokens are shuffled", {"a": d, "b": d2})
            return
    except Exception as ex:
        viol("order-dependence/raises-%s" % type(ex).__name__, "fit on the shuffled corpus raised %s" % str(ex)[:150])
        return
    ctx.ok(_sig(c), 0 < len(got) < len(cnt))


def check_given(ctx, c):
    """A supplied token_dictionary is used as given (plus the mask entry when masking is on)."""
    import vectorizers as V

    docs, e = c["docs"], c["estimator"]
    toks = sorted(set(t for d in docs for t in d))
    given = {t: i for i, t in enumerate(c["given"])}
    snapshot = dict(given)
    mask = c["mask"]
    kw = dict(token_dictionary=given)
    if mask and e != "Skipgram":
        kw["mask_string"] = mask
    cc = dict(c)

    def viol(clause, what, detail=None):
        ctx.violation("C05/%s/given-dictionary/%s" % (e, clause), what, cc, detail, sig=_sig(c))

    try:
        est, data, attr = _build(dict(c, estimator=e), docs, kw, V)
        est.fit(data)
    except Exception as ex:
        if isinstance(ex, ValueError) and "empty" in str(ex) and not any(t in given for dd in docs for t in dd):
            return ctx.skip("rejected input: no token of the corpus is in the supplied dictionary")
        viol("fit-raises/%s" % type(ex).__name__, "fit with a supplied dictionary raised %s: %s" % (type(ex).__name__, str(ex)[:150]))
        return
    d = dict(getattr(est, attr))
    ctx.count("given_dictionaries")
    exp = dict(snapshot)
    if mask and e != "Skipgram":
        exp[mask] = len(snapshot)
    if d != exp:
        viol("not-used-as-given", "fitted dictionary differs from the supplied one (+mask)", {"fitted": d, "expected": exp})
        return
    ctx.ok(("given", _sig(c)), True)


def check_ngram_stage(ctx, c):
    """Second-stage pruning of n-grams (NgramVectorizer n>=2, NgramCooccurrenceVectorizer rows)."""
    import vectorizers as V

    docs, n = c["docs"], c["ngram_size"]
    grams = [[tuple(d[i : i + n]) for i in range(len(d) - n + 1)] for d in docs]
    flat = [g for gs in grams for g in gs]
    if not flat:
        return ctx.skip("no n-grams")
    cnt = collections.Counter(flat)
    G = len(flat)
    P = c["P2"]
    exp, _, _, _, _ = model(grams, P)
    kw = {}
    for k, v in P.items():
        kw[k] = (fbound(v, len(docs)) if "document" in k else fbound(v, G)) if k.endswith("frequency") else v
    # token-stage must not prune anything: occurrence bounds are chosen so that every token passes (checked)
    tcnt = collections.Counter(t for d in docs for t in d)
    tdoc = collections.Counter(t for d in docs for t in set(d))
    T = sum(tcnt.values())
    for t, dn in tdoc.items():
        if ("min_document_occurrences" in kw and dn < kw["min_document_occurrences"]) or \
           ("min_document_frequency" in kw and Fraction(dn, len(docs)) < Fraction(kw["min_document_frequency"])):
            return ctx.skip("token stage would prune too (case not isolating the n-gram stage)")
    for t, cn in tcnt.items():
        if ("min_occurrences" in kw and cn < kw["min_occurrences"]) or ("max_occurrences" in kw and cn > kw["max_occurrences"]) or \
           ("min_frequency" in kw and Fraction(cn, T) < Fraction(kw["min_frequency"])) or ("max_frequency" in kw and Fraction(cn, T) > Fraction(kw["max_frequency"])):
            return ctx.skip("token stage would prune too (case not isolating the n-gram stage)")
    cc = dict(c)
    for name in ("Ngram", "NgramCooc"):
        def viol(clause, what, detail=None):
            ctx.violation("C05/%s/ngram-stage/%s" % (name, clause), what, cc, detail, sig=_sig(c))
        try:
            if name == "Ngram":
                est = V.NgramVectorizer(ngram_size=n, **kw).fit(docs)
                d = dict(est.column_label_dictionary_)
                got = sorted(d)
            else:
                est = V.NgramCooccurrenceVectorizer(ngram_size=n, window_radii=1, **kw).fit(docs)
                d = dict(est.ngram_label_dictionary_)
                inv = {"_".join(str(t) for t in g): g for g in cnt}
                got = sorted(inv.get(kk, kk) for kk in d)
        except ValueError as ex:
            if not exp:
                continue
            viol("fit-raises/ValueError", "raised although %d n-grams satisfy the bounds: %s" % (len(exp), str(ex)[:120]))
            return
        except Exception as ex:
            viol("fit-raises/%s" % type(ex).__name__, "raised %s: %s" % (type(ex).__name__, str(ex)[:160]))
            return
        ctx.count("ngram_stage")
        if got != exp:
            viol("ngram-vocabulary-differs", "kept n-grams differ from the exact model", {"missing": [g for g in exp if g not in got], "extra": [g for g in got if g not in exp], "counts": {str(k): v for k, v in cnt.items()}, "kwargs": kw})
            return
        if name == "Ngram" and [d[g] for g in got] != list(range(len(got))):
            viol("ngram-indices-not-sorted", "n-gram indices are not 0..n-1 in sorted order", d)
            return
    ctx.ok(("ng", _sig(c)), 0 < len(exp) < len(cnt))


def run_vocab(ctx):
    n = ctx.pick(1200, 10000) if ctx.mode == "PY" else ctx.pick(120, 800)
    ESTS = ["Token", "Timed", "MultiSet", "NgramCooc", "Ngram", "Skipgram", "Tree"]
    mine = ESTS[ctx.shard :: ctx.nshards]  # compiled mode: each worker compiles only its own estimator classes
    for i in ctx.indices(n):
        c = gen_case(ctx.rng("v", i))
        if ctx.mode != "PY":
            c["estimator"] = mine[i // ctx.nshards % len(mine)]
            if c["estimator"] == "Tree" and c["kind"] != "str":
                continue
            if c["estimator"] == "NgramCooc":
                for k in ("min_frequency", "max_frequency"):
                    if k in c["P"]:
                        b = c["P"].pop(k)
                        c["P"][k.replace("frequency", "occurrences")] = b["c"] + (1 if (b["kind"] == "mid" and k.startswith("min")) else 0)
        if i < 2:
            ctx.sample(c)
        check_case(ctx, c)
    # supplied dictionaries
    ng = ctx.pick(200, 1500) if ctx.mode == "PY" else 0
    for i in ctx.indices(ng):
        r = ctx.rng("g", i)
        c = gen_case(r)
        toks = sorted(set(t for d in c["docs"] for t in d), key=str)
        extra = ["zz_unused1", "zz_unused2"] if c["kind"] == "str" else []
        given = [t for t in toks if r.random() < 0.7] + extra[: r.randint(0, 2)]
        if not given:
            given = toks[:1]
        r.shuffle(given)
        c2 = {"docs": c["docs"], "estimator": r.choice(["Token", "Timed", "NgramCooc", "Ngram", "Skipgram"]), "given": given,
              "mask": r.choice([None, "[MASK]"]) if c["kind"] == "str" else None, "kind": c["kind"]}
        check_given(ctx, c2)
    # n-gram stage
    nn = ctx.pick(300, 2500) if ctx.mode == "PY" else 0
    for i in ctx.indices(nn):
        r = ctx.rng("n", i)
        vocab = r.randint(2, 4)
        docs = [["t%d" % r.randrange(vocab) for _ in range(r.choice([0, 1, 2, 4, 9, 20]))] for _ in range(r.randint(1, 6))]
        n = r.choice([2, 2, 3])
        grams = [tuple(d[j : j + n]) for d in docs for j in range(len(d) - n + 1)]
        if not grams:
            continue
        cv = sorted(set(collections.Counter(grams).values()))
        P2 = {}
        pick = r.choice(["min_occ", "max_occ", "min_f", "max_f", "both", "min_doc", "min_docf"])
        dv = sorted(set(collections.Counter(g for d in docs for g in set(tuple(d[j : j + n]) for j in range(len(d) - n + 1))).values()))
        if pick == "min_doc":
            P2["min_document_occurrences"] = r.choice(dv)
        if pick == "min_docf":
            P2["min_document_frequency"] = {"kind": r.choice(["exact", "mid"]) if r.choice(dv) < len(docs) else "exact", "c": r.choice(dv)}
            if P2["min_document_frequency"]["c"] >= len(docs):
                P2["min_document_frequency"]["kind"] = "exact"
        if pick in ("min_occ", "both"):
            P2["min_occurrences"] = r.choice(cv)
        if pick == "max_occ":
            P2["max_occurrences"] = r.choice(cv)
        if pick == "min_f":
            P2["min_frequency"] = {"kind": r.choice(["exact", "mid"]), "c": r.choice(cv)}
            if P2["min_frequency"]["c"] >= len(grams):
                P2["min_frequency"]["kind"] = "exact"
        if pick == "max_f":
            P2["max_frequency"] = {"kind": "exact", "c": r.choice(cv)}
        c = {"docs": docs, "ngram_size": n, "P2": P2}
        if i < 1:
            ctx.sample(c)
        check_ngram_stage(ctx, c)


def run_exh(ctx):
    from vectorizers.preprocessing import construct_token_dictionary_and_frequency, prune_token_dictionary
    import vectorizers as V

    bound = ctx.pick(160, 1200)
    for T in ctx.indices(bound + 1):
        if T < 1:
            continue
        bad = []
        for c in range(1, T + 1):
            seq = ["a"] * c + ["b"] * (T - c)
            d, f, n = construct_token_dictionary_and_frequency(seq)
            base = dict(min_frequency=None, max_frequency=None)
            # (kwargs, must 'a' survive?)
            tests = [
                (dict(min_occurrences=c), True), (dict(max_occurrences=c), True), (dict(min_frequency=c / T), True), (dict(max_frequency=c / T), True),
                (dict(min_occurrences=c + 1), False), (dict(min_frequency=(c + 1) / T), False if c + 1 <= T else None),
            ]
            if c > 1:
                tests += [(dict(max_occurrences=c - 1), False), (dict(max_frequency=(c - 1) / T), False)]
            if (c + T) % 7 == 0:
                # the same bound given both ways (documented: both may be passed when they agree)
                tests += [(dict(min_occurrences=c, min_frequency=c / n), True), (dict(max_occurrences=c, max_frequency=c / n), True)]
            for kw, want in tests:
                if want is None:
                    continue
                try:
                    nd, _ = prune_token_dictionary(dict(d), f, total_tokens=n, **{**base, **kw})
                except AssertionError:
                    nd = {}  # a consistent pair of bounds must not be rejected
                    ctx.count("consistent_bounds_rejected")
                ctx.count("exhaustive_pairs")
                if ("a" in nd) != want:
                    bad.append((c, T, kw, want))
            if (c * 31 + T) % 50 == 0 and c < T:
                # public estimators on the same pair
                docs = [seq[: T // 2], seq[T // 2 :]]
                for cls, attr, kw0 in ((V.TokenCooccurrenceVectorizer, "token_label_dictionary_", dict(window_radii=1)), (V.NgramVectorizer, "column_label_dictionary_", {})):
                    for kw, want in ((dict(min_frequency=c / T), True), (dict(max_frequency=c / T), True), (dict(min_occurrences=c, max_occurrences=c), True)):
                        try:
                            est = cls(**kw0, **kw).fit(docs)
                            got = "a" in getattr(est, attr)
                        except ValueError:
                            got = False
                        ctx.count("exhaustive_public")
                        if got != want:
                            bad.append((c, T, kw, want, cls.__name__))
        if bad:
            b = bad[0]
            kind = [k for k in b[2]][0]
            ctx.violation("C05/prune_token_dictionary/bound-equal-count/%s" % kind, "count=%d total=%d %s: token %s" % (b[0], b[1], b[2], "pruned" if b[3] else "kept"),
                          {"count": b[0], "total": b[1], "kwargs": b[2], "expected_kept": b[3]}, {"all_bad_for_this_total": bad[:20]}, sig=("exh", T))
        else:
            ctx.ok(("exh", T), T >= 3)
    ctx.sample({"exhaustive": "corpus c*'a' + (T-c)*'b' for every 1<=c<=T<=%d; bounds c, c+-1 as occurrences and as c/T frequencies" % bound})


def run_ties(ctx):
    import vectorizers as V

    scales = [3_000, 30_000, 300_000, 3_000_000] + ([9_000_000] if not ctx.quick else [])
    for T in scales:
        for cbase in (T // 3, T // 2 - 7):
            c = cbase
            # tokens: 'hi' occurs c times, 'lo' occurs c-1 times, filler the rest
            docs = [["hi"] * c + ["lo"] * (c - 1) + ["zz"] * (T - 2 * c + 1)]
            for kw, want in ((dict(min_occurrences=c), {"hi"}), (dict(max_occurrences=c - 1), {"lo"} | ({"zz"} if T - 2 * c + 1 <= c - 1 else set())),
                             (dict(min_frequency=c / T), {"hi"}), (dict(max_frequency=(c - 1) / T), {"lo"} | ({"zz"} if T - 2 * c + 1 <= c - 1 else set()))):
                if "min_occurrences" in kw or "min_frequency" in kw:
                    if T - 2 * c + 1 >= c:
                        want = want | {"zz"}
                ctx.count("near_ties")
                try:
                    est = V.NgramVectorizer(**kw).fit(docs)
                    got = set(est.column_label_dictionary_)
                except Exception as ex:
                    got = "raised %s" % type(ex).__name__
                if got != want:
                    ctx.violation("C05/NgramVectorizer/near-tie-at-scale/%s" % list(kw)[0], "T=%d counts %d/%d: kept %s, expected %s" % (T, c, c - 1, got, want),
                                  {"T": T, "c": c, "kwargs": kw}, None, sig=("tie", T, c))
                else:
                    ctx.ok(("tie", T, c, list(kw)[0]), True)
    ctx.sample({"near_ties": "tokens with counts c and c-1 in corpora of %s tokens" % scales})


def replay_any(ctx, c):
    if "given" in c:
        return check_given(ctx, c)
    if "P2" in c:
        return check_ngram_stage(ctx, c)
    return check_case(ctx, c)


PARTS = {"vocab": run_vocab, "exh": run_exh, "ties": run_ties}
CHECKS = {"vocab": replay_any, "exh": replay_any, "ties": replay_any}
