"""C14 — masking keeps positions; nullifying the mask removes its contribution."""
import collections

import numpy as np
import scipy.sparse as sp

from vv import coh
from vv.core import t32_tol
from vv.ref import tree as T

ID = "C14"
LEVEL = "exploration"
TECHNIQUE = "runtime monitoring: three fits per corpus (mask None | mask | mask+nullify) compared with a position-preserving reference run on deleted / replaced / replaced+zero-weight sequences; zero row/column and equality-outside-the-mask oracles"
LEVEL_TEXT = ("For generated corpora with a pruning setting that removes at least one token, the co-occurrence vectorizers, the tree vectorizer and "
              "NgramVectorizer are fitted three times (mask_string None, set, set with nullify_mask); the vocabulary clause (mask absent / present "
              "exactly once with the last index) is checked and each matrix is compared with the reference on sequences where removed tokens are "
              "deleted, replaced in place, or replaced and given zero weight. With nullify the mask row and all mask columns must be zero and, "
              "in settings without normalisation, every other cell must equal the masked computation. Held = no violation on the executions produced.")
LEVEL_NOTE = "With window/kernel normalisation on, 'removing the mask's contributions' is only judged through zero-ness and the reference with zero-weight mask contexts (no second reading is imposed)."
RULE = ("case = (estimator, corpus, pruning bound removing >= 1 token, window/kernel parameters); three fits per case; non-trivial when the mask "
        "replaces >= 1 token that has a kept neighbour within the window; distinct = hash of the case")
ASSUMPTIONS = [
    "mask strings never occur as tokens of the corpus",
    "NgramVectorizer: only position preservation is judged (its nullify_mask option is outside the claim)",
]
MIN_NONTRIVIAL = {"quick": 150, "thorough": 1500}
REQUIRED = {"quick": {"triples_compared": 300, "nullify_zero_checks": 300, "ngram_position_checks": 80, "tree_triples": 60, "jit_triples": 40},
            "thorough": {"triples_compared": 3000, "nullify_zero_checks": 3000, "ngram_position_checks": 800, "tree_triples": 600, "jit_triples": 400}}

JIT_SHAPES = [("token", "flat", ["directional"]), ("token", "geometric", ["after", "before"]), ("timed", "flat", ["after"]), ("timed", "geometric", ["directional"]),
              ("multi", "flat", ["after"]), ("multi", "geometric", ["directional"]), ("ngram", "harmonic", ["after"])]


def plan(tier, seed):
    q = tier == "quick"
    return [
        {"part": "mask", "mode": "PY", "shards": 8 if q else 14},
        {"part": "mask", "mode": "JIT", "shards": len(JIT_SHAPES), "weight": 5},
    ]


NAMES = {"token": "TokenCooccurrenceVectorizer", "timed": "TimedTokenCooccurrenceVectorizer", "multi": "MultiSetCooccurrenceVectorizer", "ngram": "NgramCooccurrenceVectorizer"}


def gen_case(r, shape=None):
    for _ in range(50):
        c = coh.gen_case(r, shape=(shape + (False,)) if shape else None, allow_prune=False, allow_variable=True)
        cnt = collections.Counter(coh._flat_tokens(c))
        if len(cnt) < 2:
            continue
        vals = sorted(cnt.values())
        bound = r.choice(vals[1:]) if vals[0] < vals[-1] else None
        how = r.choice(["min_occurrences", "min_occurrences", "max_occurrences", "excluded"])
        if how == "min_occurrences" and bound:
            c["prune"] = {"min_occurrences": bound}
        elif how == "max_occurrences" and vals[0] < vals[-1]:
            c["prune"] = {"max_occurrences": r.choice(vals[:-1])}
        else:
            c["prune"] = {"excluded_tokens": [r.choice(sorted(cnt))]}
        c["mask_string"] = r.choice(["[M]", "__mask__", "zzz"])
        return c
    return None


def check_case(ctx, c):
    import vectorizers as V

    okv, why = coh.valid_input(c)
    if not okv:
        return ctx.skip("invalid input: " + why)
    name = NAMES[c["est"]]
    sg = coh.sig(c)
    state = {"ok": True}

    def viol(clause, what, detail=None):
        state["ok"] = False
        ctx.violation("C14/%s/%s" % (name, clause), what, c, detail, sig=sg)

    data = coh.data_of(c)
    prune = dict(c["prune"])
    if "excluded_tokens" in prune:
        prune["excluded_tokens"] = set(prune["excluded_tokens"])
    cnt = collections.Counter(coh._flat_tokens(c))
    if "min_occurrences" in prune:
        keep = sorted(t for t, k in cnt.items() if k >= prune["min_occurrences"])
    elif "max_occurrences" in prune:
        keep = sorted(t for t, k in cnt.items() if k <= prune["max_occurrences"])
    else:
        keep = sorted(t for t in cnt if t not in prune["excluded_tokens"])
    if len(keep) == len(cnt) or not keep:
        return ctx.skip("pruning removes nothing / everything")
    mask = c["mask_string"]
    mats = {}
    for mode in ("delete", "mask", "nullify"):
        cm = dict(c, prune=prune, mask=None if mode == "delete" else mask, nullify=mode == "nullify")
        try:
            est = coh.build(cm, V)
            M = est.fit_transform(data)
        except ValueError as e:
            if "dictionary is empty" in str(e):
                return ctx.skip("rejected input: empty n-gram dictionary")
            viol("%s/fit-raises/ValueError" % mode, "fit raised ValueError: %s" % str(e)[:160])
            return
        except Exception as e:
            if c["est"] == "ngram" and mode == "delete" and max(sum(1 for t in d if t in keep) for d in c["docs"]) < c["ngram"]:
                return ctx.skip("rejected input: no n-gram left after deletion")
            viol("%s/fit-raises/%s" % (mode, type(e).__name__), "fit raised %s: %s" % (type(e).__name__, str(e)[:160]))
            return
        td = dict(est.token_label_dictionary_)
        exp_td = {t: i for i, t in enumerate(keep)}
        if mode != "delete":
            exp_td[mask] = len(keep)
        if td != exp_td:
            viol("%s/vocabulary" % mode, "vocabulary %s, expected kept tokens in sorted order%s" % (td, " plus the mask with the last index" if mode != "delete" else " and no mask"),
                 {"expected": exp_td})
            return
        ref = coh.reference(cm, est)
        if ref.M is None:
            return ctx.skip(ref.why or "ambiguous")
        Md = M.toarray().astype(np.float64)
        mats[mode] = (Md, ref, est)
        if Md.shape != ref.M.shape:
            viol("%s/shape" % mode, "shape %s vs reference %s" % (Md.shape, ref.M.shape))
            return
        n = ref.n
        if mode == "nullify":
            mi = td[mask]
            ctx.count("nullify_zero_checks")
            rows_zero = True
            if c["est"] != "ngram":
                rows_zero = not Md[mi].any()
            else:
                nl = dict(est.ngram_label_dictionary_)
                mk = nl.get("_".join([mask] * c["ngram"]))
                rows_zero = mk is None or not Md[mk].any()
            cols_zero = not any(Md[:, b * n + mi].any() for b in range(len(ref.wins)))
            if not cols_zero:
                viol("nullify/mask-column-not-zero", "a column referring to the nullified mask is not zero")
                return
            if not rows_zero:
                viol("nullify/mask-row-not-zero", "the row of the nullified mask is not zero", {"row": Md[mi].tolist() if c["est"] != "ngram" else None})
                return
        tol = t32_tol(ref.CNT, np.abs(ref.M))
        refM = ref.M
        if mode == "nullify" and c["est"] == "multi":
            refM = refM.copy()
            refM[td[mask], :] = 0  # property: the mask contributes nothing, its row is zero
        bad = np.abs(Md - refM) > tol
        if bad.any():
            i, j = [int(x) for x in np.argwhere(bad)[0]]
            viol("%s/differs-from-%s-reference" % (mode, {"delete": "deleted-sequence", "mask": "position-preserving", "nullify": "zero-weight-mask"}[mode]),
                 "cell (%d, block %d, token %d) = %.8g, reference %.8g" % (i, j // n, j % n, Md[i, j], refM[i, j]),
                 {"got_row": Md[i].tolist()[:30], "ref_row": refM[i].tolist()[:30], "vocabulary": td})
            return
    ctx.count("triples_compared")
    if ctx.mode != "PY":
        ctx.count("jit_triples")
    # nullify vs mask outside the mask, when nothing is normalised
    Mm, refm, _ = mats["mask"]
    Mn, refn, estn = mats["nullify"]
    if not c["normalize_windows"] and not any(c["knorm"]) and all(w == "fixed" for w in c["wfuncs"]) and c["est"] != "ngram":
        n = refm.n
        mi = len(keep)
        Z = Mm.copy()
        Z[mi, :] = 0
        for b in range(len(refm.wins)):
            Z[:, b * n + mi] = 0
        if not np.allclose(Mn, Z, rtol=1e-5, atol=1e-7):
            viol("nullify/other-cells-change", "outside the mask row/columns the nullified matrix differs from the masked one")
            return
    if state["ok"]:
        # non-trivial: some removed token has a kept neighbour inside a window
        ks = set(keep)
        seqs = c["docs"] if c["est"] != "multi" else [[t for ms in d for t in ms] for d in c["mdocs"]]
        rmax = max(c["radii"]) + (5 if c["est"] == "multi" else 0)
        nt = any(t not in ks and any(u in ks for u in s[max(0, p - rmax): p + rmax + 1]) for s in seqs for p, t in enumerate(s))
        ctx.ok(sg, bool(nt))


# ------------------------------------------------------------------ NgramVectorizer: position preservation
def check_ngram(ctx, c):
    import vectorizers as V

    docs, n, mo, mask = c["docs"], c["n"], c["min_occurrences"], c["mask_string"]
    cnt = collections.Counter(t for d in docs for t in d)
    keep = {t for t, k in cnt.items() if k >= mo}
    if len(keep) == len(cnt) or not keep:
        return ctx.skip("pruning removes nothing / everything")
    sg = hash(str(c)) % 10**12

    def viol(clause, what, detail=None):
        ctx.violation("C14/NgramVectorizer/%s" % clause, what, c, detail, sig=sg)

    for mode in ("delete", "mask"):
        kw = dict(ngram_size=n, min_occurrences=mo)
        if mode == "mask":
            kw["mask_string"] = mask
        try:
            est = V.NgramVectorizer(**kw)
            M = est.fit_transform(docs).toarray()
        except Exception as e:
            seqs = [[t for t in d if t in keep] if mode == "delete" else list(d) for d in docs]
            if max(len(s) for s in seqs) < n:
                return ctx.skip("rejected input: no n-gram")
            grams = collections.Counter(tuple(s[i:i + n]) for s in seqs for i in range(len(s) - n + 1))
            if n >= 2 and max(grams.values()) < mo:
                return ctx.skip("rejected input: no n-gram reaches the bound")
            viol("%s/fit-raises/%s" % (mode, type(e).__name__), "fit raised %s: %s" % (type(e).__name__, str(e)[:160]))
            return
        seqs = [[t for t in d if t in keep] for d in docs] if mode == "delete" else [[t if t in keep else mask for t in d] for d in docs]
        lab = {(l if isinstance(l, tuple) else (l,)): j for l, j in est.column_label_dictionary_.items()}
        if n == 1:
            expv = set((t,) for t in keep) | ({(mask,)} if mode == "mask" else set())
            if set(lab) != expv:
                viol("%s/vocabulary" % mode, "unigram columns %s, expected %s" % (sorted(lab), sorted(expv)))
                return
            if mode == "mask" and lab[(mask,)] != len(keep):
                viol("mask/mask-index-not-last", "mask column index %d, expected %d" % (lab[(mask,)], len(keep)))
                return
        ctx.count("ngram_position_checks")
        newdocs = [d[::-1] + ["zz_unseen"] + d[:2] for d in docs if d][:3]
        newseqs = [[t for t in d if t in keep] for d in newdocs] if mode == "delete" else [[t if t in keep else mask for t in d] for d in newdocs]
        try:
            Mt = est.transform(docs).toarray()
            Mn = est.transform(newdocs).toarray() if newdocs else np.zeros((0, len(lab)))
        except Exception as e:
            viol("%s/transform-raises/%s" % (mode, type(e).__name__), "transform raised %s: %s" % (type(e).__name__, str(e)[:160]))
            return
        for which, MM, SS in (("fit_transform", M, seqs), ("transform-of-training", Mt, seqs), ("transform-of-new-documents", Mn, newseqs)):
            for i, s in enumerate(SS):
                cn = collections.Counter(tuple(s[k:k + n]) for k in range(len(s) - n + 1))
                for g, j in lab.items():
                    if MM[i, j] != cn.get(g, 0):
                        viol("%s/%s-count-differs-from-%s-sequence" % (mode, which, "deleted" if mode == "delete" else "position-preserving"),
                             "%s doc %d n-gram %r: %s, expected %d" % (which, i, g, MM[i, j], cn.get(g, 0)), {"sequence": s})
                        return
    ctx.ok(sg, True)


# ------------------------------------------------------------------ tree vectorizer
def check_tree(ctx, c):
    import vectorizers as V
    from vv.props.C15 import to_adj

    trees = [(t["par"], t["labels"]) for t in c["trees"]]
    X = [(to_adj(p), np.array(l)) for p, l in trees]
    cnt = collections.Counter(l for _, ls in trees for l in ls)
    keep = {l for l, k in cnt.items() if k >= c["min_occurrences"]}
    if len(keep) == len(cnt) or not keep:
        return ctx.skip("pruning removes nothing / everything")
    sg = hash(str(c)) % 10**12
    mask = c["mask_string"]
    w = T.kweights(c["kernel"], c["R"])
    mats = {}
    for mode in ("delete", "mask", "nullify"):
        def viol(clause, what, detail=None):
            ctx.violation("C14/LabelledTreeCooccurrenceVectorizer/%s/%s" % (mode, clause), what, c, detail, sig=sg)
        kw = dict(window_radius=c["R"], kernel_function=c["kernel"], window_orientation=c["orientation"], min_occurrences=c["min_occurrences"])
        if mode != "delete":
            kw["mask_string"] = mask
        if mode == "nullify":
            kw["nullify_mask"] = True
        try:
            est = V.LabelledTreeCooccurrenceVectorizer(**kw)
            M = est.fit_transform(X).toarray()
        except Exception as e:
            viol("fit-raises/%s" % type(e).__name__, "fit raised %s: %s" % (type(e).__name__, str(e)[:160]))
            return
        ld = dict(est.token_label_dictionary_)
        exp_ld = {l: i for i, l in enumerate(sorted(keep))}
        if mode != "delete":
            exp_ld[mask] = len(keep)
        if ld != exp_ld:
            viol("vocabulary", "label dictionary %s, expected %s" % (ld, exp_ld))
            return
        A = T.tree_ref(trees, ld, c["R"], w, keepset=keep, mask=None if mode == "delete" else mask, nullify=mode == "nullify")
        exp = T.orient(A, c["orientation"])
        if M.shape != exp.shape or not np.allclose(M, exp, rtol=1e-6, atol=1e-9):
            viol("differs-from-reference", "tree matrix differs from the %s reference" % mode, {"got": M.tolist(), "expected": exp.tolist()})
            return
        if mode == "nullify":
            mi, n = ld[mask], len(ld)
            cols = [mi] if c["orientation"] != "directional" else [mi, n + mi]
            if M[mi].any() or any(M[:, j].any() for j in cols):
                viol("mask-row-or-column-not-zero", "nullified mask row/columns are not zero")
                return
        mats[mode] = M
    ctx.count("tree_triples")
    ctx.ok(sg, True)


def run(ctx):
    if ctx.mode == "PY":
        for i in ctx.indices(ctx.pick(900, 8000)):
            c = gen_case(ctx.rng(i))
            if c is None:
                continue
            if i < 2:
                ctx.sample(c)
            check_case(ctx, c)
        for i in ctx.indices(ctx.pick(250, 2000)):
            r = ctx.rng("ng", i)
            vocab = r.randint(2, 7)
            docs = [coh.gen_tokens(r, vocab, r.choice([0, 1, 2, 4, 8, 16])) for _ in range(r.randint(1, 5))]
            cnt = collections.Counter(t for d in docs for t in d)
            if len(cnt) < 2:
                continue
            c = {"docs": docs, "n": r.choice([1, 2, 2, 3]), "min_occurrences": sorted(cnt.values())[len(cnt) // 2], "mask_string": "[M]"}
            check_ngram(ctx, c)
        from vv.props.C15 import rand_parents
        for i in ctx.indices(ctx.pick(200, 1500)):
            r = ctx.rng("tr", i)
            nlab = r.randint(2, 5)
            trees = []
            for _ in range(r.randint(1, 4)):
                n = r.choice([2, 3, 5, 9, 14])
                trees.append({"par": rand_parents(r, n, r.choice(["path", "star", "random", "random", "forest", "caterpillar"])), "labels": ["L%d" % min(int(r.paretovariate(1.2)) - 1, nlab - 1) for _ in range(n)]})
            cnt = collections.Counter(l for t in trees for l in t["labels"])
            if len(cnt) < 2:
                continue
            c = {"trees": trees, "R": r.randint(1, 4), "kernel": r.choice(["flat", "harmonic", "geometric"]),
                 "orientation": r.choice(["before", "after", "symmetric", "directional"]), "min_occurrences": sorted(cnt.values())[len(cnt) // 2], "mask_string": "[M]"}
            check_tree(ctx, c)
    else:
        shape = JIT_SHAPES[ctx.shard % len(JIT_SHAPES)]
        for k in range(ctx.pick(14, 100) if shape[0] != "ngram" else ctx.pick(4, 20)):
            c = gen_case(ctx.rng("jit", str(shape), k), shape=shape)
            if c is None:
                continue
            if k < 1:
                ctx.sample(c)
            check_case(ctx, c)


def replay_any(ctx, c):
    if "trees" in c:
        return check_tree(ctx, c)
    if "est" in c:
        return check_case(ctx, c)
    return check_ngram(ctx, c)


PARTS = {"mask": run}
CHECKS = {"mask": replay_any}
