"""C08 — Wasserstein embeddings depend only on the measure, not on its encoding."""
import numpy as np
import scipy.sparse as sp

ID = "C08"
LEVEL = "exploration"
TECHNIQUE = "runtime monitoring: metamorphic group oracle (scale, zero-weight padding, permutation, splitting, explicit zeros, duplicate rows, memory/chunk sizes, input format) on fitted Wasserstein-style models, plus a full-rank pairwise-distance oracle against the public raw LOT vectors"
LEVEL_TEXT = ("Fitted WassersteinVectorizer (LOT_exact, LOT_sinkhorn) and SinkhornVectorizer models transform a collection X' and each re-encoding "
              "of it that represents the same measures: rows rescaled, support points of zero weight appended (with arbitrary vectors), support "
              "points permuted together with their vectors, a support point split into duplicates sharing its mass, explicit stored zeros, "
              "different memory_size / chunk sizes, and the same data as sparse matrix, lists and generators; embeddings must coincide. With "
              "n_components = n_rows the pairwise Euclidean distances of embedding_ must equal those of the raw LOT vectors returned by the "
              "public lot_vectors_sparse_internal. HeuristicLinearAlgebra / ApproximateWasserstein take their vectors at fit, so for them the "
              "re-encodings are applied to a re-fit and rotation-proof pairwise distances are compared. A seventh of the exact-LOT cases run with an active max_distribution_size truncation (distinct weights, so the kept points are determined; the split relation is not a symmetry there and is skipped). Compiled workers also fit 600-900 distributions from a generator and from lists under a memory budget that forces several blocks of more than 256 rows (full-rank components) and compare the embeddings. Held = no violation on the executions produced.")
LEVEL_NOTE = "Vectors are continuous random, so exact optimal plans are almost surely unique; tolerance 1e-9*scale for exact LOT, 1e-6*scale for entropic (Sinkhorn) pipelines whose iterations stop on a tolerance; 1e-3 for distances after a multi-block fit (blocks are spilled as float32)."
RULE = ("case = (vectors, distributions, metric, method, reference, memory size); one evaluation per relation; non-trivial when X' has >= 3 rows with "
        "pairwise different supports and the reference has >= 2 points; distinct = hash of the case + relation")
ASSUMPTIONS = [
    "normalization_power = 1 only for HeuristicLinearAlgebra / ApproximateWasserstein (other powers are documented to depart from measure-only semantics)",
    "the reference is passed explicitly when formats are compared, so that all three input formats share it",
]
MIN_NONTRIVIAL = {"quick": 100, "thorough": 1000}
REQUIRED = {"quick": {"relations_checked": 900, "format_comparisons": 30, "full_rank_distance_checks": 30, "refit_relations": 100, "jit_relations_checked": 300, "bigbatch_relations": 8, "truncated_rows": 30, "big_generator_fits": 1},
            "thorough": {"relations_checked": 9000, "format_comparisons": 400, "full_rank_distance_checks": 400, "refit_relations": 1000, "jit_relations_checked": 3000, "bigbatch_relations": 80, "truncated_rows": 300, "big_generator_fits": 2}}


def plan(tier, seed):
    q = tier == "quick"
    return [
        {"part": "meta", "mode": "JIT", "shards": 8 if q else 12, "weight": 5},
        {"part": "meta", "mode": "PY", "shards": 8 if q else 10, "weight": 2},
    ]


def gen_case(r):
    return {"npts": r.randint(6, 18), "dim": r.choice([2, 3, 5]), "n": r.randint(4, 9), "ntest": r.randint(3, 7), "nref": r.choice([1, 4, 9]),
            "metric": r.choice(["cosine", "euclidean"]), "method": r.choice(["LOT_exact", "LOT_exact", "LOT_sinkhorn", "Sinkhorn"]),
            "memory_size": r.choice(["2G", "2G", "1k"]), "density": r.choice([0.25, 0.5]), "seed": r.randrange(10**6),
            # truncation to the heaviest max_distribution_size points (weights are all distinct, so the kept set is determined)
            "mds": r.choice([None, None, None, None, 2, 3, 5])}


def _measures(rs, n, npts, density):
    X = sp.random(n, npts, density=density, random_state=rs.randint(1 << 30), format="lil")
    for i in range(n):
        if len(X.rows[i]) < 2:
            for j in rs.choice(npts, 2, replace=False):
                X[i, j] = rs.rand() + 0.1
    X = X.tocsr()
    X.data = X.data + 0.05
    return X


def _lil(X, vec):
    L = X.tolil()
    return [np.array(r_, dtype=float) for r_ in L.data], [np.ascontiguousarray(vec[r_]) for r_ in L.rows]


def check_case(ctx, c):
    import vectorizers as V
    from scipy.spatial.distance import pdist

    rs = np.random.RandomState(c["seed"])
    npts, dim, n = c["npts"], c["dim"], c["n"]
    shift = 2.0 if c["metric"] == "cosine" else 0.0
    vec = rs.normal(size=(npts, dim)) + shift
    X = _measures(rs, n, npts, c["density"])
    Xt = _measures(rs, c["ntest"], npts, c["density"])
    refv = rs.normal(size=(c["nref"], dim)) + shift
    if c["metric"] == "cosine":
        refv /= np.linalg.norm(refv, axis=1, keepdims=True)
    refd = rs.dirichlet(np.ones(c["nref"]) * 3)
    sg = hash(str(c)) % 10**12
    method = c["method"]
    name = "SinkhornVectorizer" if method == "Sinkhorn" else "WassersteinVectorizer/" + method
    state = {"ok": True}

    def viol(clause, what, detail=None):
        state["ok"] = False
        ctx.violation("C08/%s/%s/%s" % (name, c["metric"], clause), what, c, detail, sig=sg)

    nc = min(n, c["nref"] * dim)
    common = dict(n_components=nc, metric=c["metric"], random_state=11, memory_size=c["memory_size"])
    mds = c.get("mds") if method == "LOT_exact" else None
    if mds is not None:
        common["max_distribution_size"] = mds
        ctx.count("truncated_rows", int(np.sum(np.diff(Xt.indptr) > mds)))
    try:
        if method == "Sinkhorn":
            est = V.SinkhornVectorizer(**common)
        else:
            est = V.WassersteinVectorizer(method=method, **common)
        est.fit(X, vectors=vec, reference_vectors=refv, reference_distribution=refd)
        base = est.transform(Xt, vectors=vec)
    except Exception as e:
        viol("fit-or-transform-raises/%s" % type(e).__name__, "%s: %s" % (type(e).__name__, str(e)[:200]))
        return
    scale = max(1e-12, float(np.abs(base).max()))
    tol = (1e-9 if method == "LOT_exact" else 1e-6) * scale

    def rel(clause, Xv, vecv, rows=None):
        try:
            out = est.transform(Xv, vectors=vecv)
        except Exception as e:
            viol("%s/raises-%s" % (clause, type(e).__name__), "transform of the re-encoded input raised %s: %s" % (type(e).__name__, str(e)[:160]))
            return False
        ctx.count("relations_checked")
        if ctx.mode != "PY":
            ctx.count("jit_relations_checked")
        exp = base if rows is None else base[rows]
        if out.shape != exp.shape or not np.all(np.abs(out - exp) <= tol):
            viol(clause, "embedding changes under '%s': max |diff| %.3g (scale %.3g)" % (clause, float(np.max(np.abs(out - exp))) if out.shape == exp.shape else np.nan, scale))
            return False
        return True

    nt = Xt.shape[0]
    # (a) row rescaling
    D = sp.diags(rs.uniform(0.2, 7.0, size=nt))
    if not rel("row-rescaling", (D @ Xt).tocsr(), vec):
        return
    # (c) permutation of support points with their vectors - deliberately right after a call with the original table:
    #     same shape, different content (anything cached per shape goes stale here)
    perm = rs.permutation(npts)
    if not rel("support-permutation", Xt[:, perm].tocsr(), vec[perm]):
        return
    if not rel("repeat-after-other-vector-table", Xt, vec):
        return
    # (b) zero-weight support points with arbitrary vectors
    k = rs.randint(1, 4)
    Xpad = sp.hstack([Xt, sp.csr_matrix((nt, k))]).tocsr()
    vpad = np.vstack([vec, rs.normal(size=(k, dim)) * 10 + shift])
    if not rel("zero-weight-padding", Xpad, vpad):
        return
    # (d) split a support point into duplicates sharing its mass (not a symmetry once the heaviest-k truncation is active)
    j = int(rs.randint(npts))
    A = Xt.toarray()
    share = rs.uniform(0.2, 0.8)
    extra = A[:, j] * share
    A2 = np.hstack([A, extra[:, None]])
    A2[:, j] = A[:, j] - extra
    if mds is None and not rel("split-support-point", sp.csr_matrix(A2), np.vstack([vec, vec[j : j + 1]])):
        return
    # (e) explicit stored zeros
    Z = Xt.tocoo()
    zr = rs.randint(0, nt, size=3)
    zc = rs.randint(0, npts, size=3)
    keep = [(a, b) for a, b in zip(zr, zc) if A[a, b] == 0]
    if keep:
        E = sp.coo_matrix((np.concatenate([Z.data, np.zeros(len(keep))]), (np.concatenate([Z.row, [a for a, _ in keep]]), np.concatenate([Z.col, [b for _, b in keep]]))), shape=Xt.shape).tocsr()
        if not rel("explicit-zeros", E, vec):
            return
    # (f) equal distributions -> equal embeddings (row duplicated, differently scaled)
    Xdup = sp.vstack([Xt, Xt[0] * 3.0]).tocsr()
    try:
        out = est.transform(Xdup, vectors=vec)
        ctx.count("relations_checked")
        if np.max(np.abs(out[-1] - out[0])) > tol or np.max(np.abs(out[:-1] - base)) > tol:
            viol("equal-distributions-different-embeddings", "a rescaled copy of row 0 appended to the batch does not get row 0's embedding (or changes the others)")
            return
    except Exception as e:
        viol("equal-distributions/raises-%s" % type(e).__name__, str(e)[:160])
        return
    # (g) memory / chunk sizes on the fitted object
    for attr, vals in (("memory_size", ("64", "1k", "8k", "1M")), ("sinkhorn_chunk_size", (1, 2, 5)), ("chunk_size", (1, 2, 5))):
        if not hasattr(est, attr) or (attr == "sinkhorn_chunk_size" and method != "LOT_sinkhorn"):
            continue
        old = getattr(est, attr)
        for v in vals:
            setattr(est, attr, v)
            okk = rel("depends-on-%s" % attr, Xt, vec)
            setattr(est, attr, old)
            if not okk:
                return
    # (g2) batches beyond the kernels' internal chunk size (256 rows) under small / mid / large memory budgets
    if ctx.mode != "PY" and rs.rand() < 0.3:
        reps = 300 // nt + 2
        Xbig = sp.vstack([Xt] * reps).tocsr()
        old = est.memory_size
        try:
            for mem in ("2G", "100k", "30k", "4k"):
                est.memory_size = mem
                out = est.transform(Xbig, vectors=vec)
                ctx.count("relations_checked")
                ctx.count("bigbatch_relations")
                exp = np.vstack([base] * reps)
                if out.shape != exp.shape or not np.all(np.abs(out - exp) <= tol):
                    bad = np.nonzero(np.max(np.abs(out - exp), axis=1) > tol)[0][:5].tolist() if out.shape == exp.shape else []
                    viol("bigbatch-depends-on-memory_size-or-position", "a %d-row batch of repeated distributions (memory_size=%s): rows %s differ from the embedding of the same distribution" % (Xbig.shape[0], mem, bad))
                    return
        finally:
            est.memory_size = old
    # (h) input formats carrying the same data (exact LOT only: the other methods accept matrices only)
    if method == "LOT_exact" and c.get("formats", True):
        try:
            dl, vl = _lil(X, vec)
            dlt, vlt = _lil(Xt, vec)
            kw = dict(common)
            e_l = V.WassersteinVectorizer(input_method="lil", **kw).fit(dl, vectors=vl, reference_vectors=refv, reference_distribution=refd)
            t_l = e_l.transform(dlt, vectors=vlt)
            e_g = V.WassersteinVectorizer(input_method="generator", generator_vector_dim=dim, generator_n_distributions=n, **kw)
            e_g.fit((d for d in dl), vectors=(v for v in vl), reference_vectors=refv, reference_distribution=refd)
            e_g.generator_n_distributions = len(dlt)
            t_g = e_g.transform((d for d in dlt), vectors=(v for v in vlt))
            ctx.count("format_comparisons")
            ftol = 1e-8 * scale if c["memory_size"] == "2G" else 1e-3 * scale
            # different fits may differ by the SVD's sign/rotation only when rank-deficient; compare rotation-proof distances
            for nm, t in (("lil", t_l), ("generator", t_g)):
                d0 = pdist(base) if len(base) > 1 else np.zeros(1)
                d1 = pdist(t) if len(t) > 1 else np.zeros(1)
                if t.shape != base.shape or np.max(np.abs(d0 - d1)) > ftol * 10:
                    viol("format-%s-differs-from-spmatrix" % nm, "pairwise distances of the embeddings differ between spmatrix and %s input: %.3g" % (nm, float(np.max(np.abs(d0 - d1))) if t.shape == base.shape else np.nan))
                    return
                if nc == n and not np.all(np.abs(np.abs(t) - np.abs(base)) <= ftol * 10):
                    viol("format-%s-differs-from-spmatrix" % nm, "embeddings differ between spmatrix and %s input (up to sign): %.3g" % (nm, float(np.max(np.abs(np.abs(t) - np.abs(base))))))
                    return
        except Exception as e:
            viol("format-comparison-raises/%s" % type(e).__name__, "%s: %s" % (type(e).__name__, str(e)[:160]))
            return
    # (i) full rank: distances between embedded rows = distances between raw LOT vectors
    if method == "LOT_exact" and nc == n:
        from pynndescent.distances import named_distances
        from sklearn.preprocessing import normalize
        from vectorizers.linear_optimal_transport import lot_vectors_sparse_internal

        Xn = normalize(X.astype(np.float64), norm="l1").tocsr()
        vv = vec / np.linalg.norm(vec, axis=1, keepdims=True) if c["metric"] == "cosine" else vec
        raw = lot_vectors_sparse_internal(Xn.indptr, Xn.indices, Xn.data.astype(np.float64), np.ascontiguousarray(vv), refv, refd, metric=named_distances[c["metric"]],
                                          max_distribution_size=256 if mds is None else mds, chunk_size=256, spherical_vectors=(c["metric"] == "cosine"))
        ctx.count("full_rank_distance_checks")
        d_raw, d_emb = pdist(raw), pdist(est.embedding_)
        rtol = 1e-6 if c["memory_size"] == "2G" else 1e-3
        if np.max(np.abs(d_raw - d_emb)) > rtol * max(1e-12, d_raw.max()):
            viol("full-rank-distances-differ-from-raw-LOT-vectors", "pairwise distances of embedding_ differ from those of the uncompressed LOT vectors by %.3g (max %.3g)" % (
                float(np.max(np.abs(d_raw - d_emb))), float(d_raw.max())))
            return
    if state["ok"]:
        supp = set(tuple(Xt[i].indices.tolist()) for i in range(nt))
        ctx.ok(sg, nt >= 3 and len(supp) >= 2 and c["nref"] >= 2)


def check_refit(ctx, c):
    """HeuristicLinearAlgebra / ApproximateWasserstein: vectors are taken at fit; re-encode and re-fit, compare pairwise distances."""
    import vectorizers as V
    from scipy.spatial.distance import pdist

    rs = np.random.RandomState(c["seed"])
    npts, dim, n = c["npts"], c["dim"], c["n"]
    vec = rs.normal(size=(npts, dim))
    X = _measures(rs, n, npts, c["density"])
    sg = hash(str(c)) % 10**12
    which = c["which"]

    def mk():
        if which == "Heuristic":
            return V.WassersteinVectorizer(method="HeuristicLinearAlgebra", n_components=min(dim, n), random_state=3)
        return V.ApproximateWassersteinVectorizer(n_components=min(dim, n), random_state=3)

    def viol(clause, what):
        ctx.violation("C08/%s/%s" % (which, clause), what, c, None, sig=sg)

    try:
        base = pdist(mk().fit_transform(X, vectors=vec))
        perm = rs.permutation(npts)
        D = sp.diags(rs.uniform(0.2, 7.0, size=n))
        k = 2
        variants = {"support-permutation": (X[:, perm].tocsr(), vec[perm]), "row-rescaling": ((D @ X).tocsr(), vec),
                    "zero-weight-padding": (sp.hstack([X, sp.csr_matrix((n, k))]).tocsr(), np.vstack([vec, rs.normal(size=(k, dim)) * 10]))}
        for clause, (Xv, vv) in variants.items():
            d = pdist(mk().fit_transform(Xv, vectors=vv))
            ctx.count("refit_relations")
            if np.max(np.abs(d - base)) > 1e-8 * max(1e-12, base.max()):
                viol(clause, "pairwise distances of the re-fitted embedding change under '%s' by %.3g" % (clause, float(np.max(np.abs(d - base)))))
                return
    except Exception as e:
        viol("raises-%s" % type(e).__name__, "%s: %s" % (type(e).__name__, str(e)[:160]))
        return
    ctx.ok(sg, True)


def check_big_generator(ctx, c):
    """Generator input with more distributions per block than the kernels' chunk size (256): same embedding as list input."""
    import vectorizers as V
    from scipy.spatial.distance import pdist

    rs = np.random.RandomState(c["seed"])
    npts, dim, n = 8, 2, c["n"]
    shift = 2.0 if c["metric"] == "cosine" else 0.0
    vec = rs.normal(size=(npts, dim)) + shift
    X = _measures(rs, n, npts, 0.4)
    refv = rs.normal(size=(4, dim)) + shift
    if c["metric"] == "cosine":
        refv /= np.linalg.norm(refv, axis=1, keepdims=True)
    refd = rs.dirichlet(np.ones(4) * 3)
    sg = hash(str(c)) % 10**12
    dl, vl = _lil(X, vec)
    kw = dict(n_components=refv.size, metric=c["metric"], random_state=11, memory_size=c["memory_size"])  # full rank: the incremental SVD is then exact whatever the blocking
    try:
        t_l = V.WassersteinVectorizer(input_method="lil", **kw).fit_transform(dl, vectors=vl, reference_vectors=refv, reference_distribution=refd)
        e_g = V.WassersteinVectorizer(input_method="generator", generator_vector_dim=dim, generator_n_distributions=n, **kw)
        t_g = e_g.fit_transform((d for d in dl), vectors=(v for v in vl), reference_vectors=refv, reference_distribution=refd)
    except Exception as e:
        ctx.violation("C08/WassersteinVectorizer/LOT_exact/%s/big-generator-raises/%s" % (c["metric"], type(e).__name__),
                      "%d distributions from a generator (memory_size=%s): %s: %s" % (n, c["memory_size"], type(e).__name__, str(e)[:160]), c, None, sig=sg)
        return
    ctx.count("big_generator_fits")
    d0, d1 = pdist(t_l[:: max(1, n // 150)]), pdist(t_g[:: max(1, n // 150)])
    scale = max(1e-12, float(d0.max()))
    if t_g.shape != t_l.shape or np.max(np.abs(d0 - d1)) > 1e-2 * scale:
        ctx.violation("C08/WassersteinVectorizer/LOT_exact/%s/big-generator-differs-from-lil" % c["metric"],
                      "%d distributions (memory_size=%s): pairwise distances of the embedding differ between generator and list input by %.3g (scale %.3g)" % (
                          n, c["memory_size"], float(np.max(np.abs(d0 - d1))) if t_g.shape == t_l.shape else np.nan, scale), c, None, sig=sg)
        return
    ctx.ok(sg, True)


def run(ctx):
    if ctx.mode != "PY" and ctx.shard % 4 == 3:
        for i in range(ctx.pick(1, 2)):
            r = ctx.rng("biggen", i)
            check_big_generator(ctx, {"biggen": True, "n": r.choice([600, 700, 900]), "metric": r.choice(["cosine", "euclidean"]), "memory_size": r.choice(["20k", "24k"]), "seed": r.randrange(10**6)})
    n = ctx.pick(80, 900) if ctx.mode == "JIT" else ctx.pick(120, 900)
    for i in ctx.indices(n):
        c = gen_case(ctx.rng(ctx.mode, i))
        if ctx.mode != "PY":
            # one method per compiled worker (each method, and each input format, compiles its own kernels)
            c["method"] = ["LOT_exact", "LOT_sinkhorn", "Sinkhorn", "LOT_exact"][ctx.shard % 4]
            c["formats"] = ctx.shard % 4 == 3
        if i < 2:
            ctx.sample(c)
        check_case(ctx, c)
    for i in ctx.indices(ctx.pick(48, 500)):
        r = ctx.rng("refit", ctx.mode, i)
        c = {"npts": r.randint(6, 14), "dim": r.choice([2, 3, 4]), "n": r.randint(4, 8), "density": 0.4, "seed": r.randrange(10**6), "which": r.choice(["Heuristic", "Approximate"])}
        check_refit(ctx, c)


def replay_any(ctx, c):
    if c.get("biggen"):
        return check_big_generator(ctx, c)
    return check_refit(ctx, c) if "which" in c else check_case(ctx, c)


PARTS = {"meta": run}
CHECKS = {"meta": replay_any}
