"""C11 — EM refinement and epsilon thresholding follow the documented procedure."""
import numpy as np

from vv import coh
from vv.ref import cooc as R

ID = "C11"
LEVEL = "exploration"
TECHNIQUE = "runtime monitoring: dense float64 re-implementation of the documented EM procedure as reference model, range/column-sum/support invariants on every output, and an icontract postcondition on the real em_update_matrix (interpreted mode) confining each occurrence's unit of mass to its own row"
LEVEL_TEXT = ("The four co-occurrence vectorizers are fitted with n_iter 0..3 and epsilon in {0,1e-3,0.05,0.2,0.6} (plus dyadic 0.5/0.25/0.125, where integer "
              "counts make a cell exactly equal to epsilon and the strictness of 'below epsilon' is decided) over the window/kernel menu and "
              "n_threads {1,3}; outputs are compared with a dense float64 run of the documented procedure (cases within 1e-4 of the threshold at "
              "any step are skipped and counted), and independently every output is checked for entries in [0,1], column sums <= 1 (= 1 for "
              "non-empty columns when epsilon = 0) and support inside that of the n_iter=0 matrix. In interpreted mode every call of the real "
              "em_update_matrix runs under a contract: it may only write inside the target row's CSR slice and adds a total mass of 0 or 1. "
              "Held = no violation on the executions produced.")
LEVEL_NOTE = "Tolerance rtol 2e-4*(n_iter+1), atol 1e-6 (float32 storage of the matrix; measured worst case 8e-4 of it); the n_iter=0/epsilon=0 matrix is taken from the reference of C03."
RULE = ("case = (estimator, corpus, window/kernel parameters, n_iter, epsilon, n_threads); non-trivial when the n_iter=0 matrix has >= 3 non-zero "
        "cells in >= 2 columns and (n_iter >= 1 or epsilon zeroes at least one cell); distinct = hash of the case")
ASSUMPTIONS = [
    "E-step weight of a context cell = mix weight * kernel weight * current cell value; an occurrence whose candidate cells are all zero contributes nothing",
    "thresholding zeroes entries strictly below epsilon after each column normalisation",
]
MIN_NONTRIVIAL = {"quick": 200, "thorough": 2000}
REQUIRED = {"quick": {"em_compared": 500, "invariant_checks": 500, "contract_evaluations": 5000, "jit_em_compared": 80, "cells_exactly_at_epsilon": 10},
            "thorough": {"em_compared": 5000, "invariant_checks": 5000, "contract_evaluations": 50000, "jit_em_compared": 800, "cells_exactly_at_epsilon": 80}}


def plan(tier, seed):
    q = tier == "quick"
    return [
        {"part": "em", "mode": "PY", "shards": 8 if q else 14},
        {"part": "em", "mode": "JIT", "shards": 13, "weight": 5},
    ]


class RowAttributionBroken(Exception):
    pass


def install_contract(ctx):
    """icontract postcondition on the real em_update_matrix (PY mode only: kernels are plain functions there)."""
    try:
        import icontract
    except ImportError:
        icontract = None
    import vectorizers.coo_utils as cu
    import vectorizers.token_cooccurrence_vectorizer as m1
    import vectorizers.timed_token_cooccurrence_vectorizer as m2
    import vectorizers.multi_token_cooccurence_vectorizer as m3
    import vectorizers.ngram_token_cooccurence_vectorizer as m4

    state = {"violations": []}

    def snap_posterior(posterior_data):
        return posterior_data.copy()

    def confined_to_row_and_unit_mass(posterior_data, prior_indptr, target_gram_ind, windows, result, OLD):
        ctx.count("contract_evaluations")
        d = np.asarray(result, dtype=np.float64) - np.asarray(OLD.before, dtype=np.float64)
        lo, hi = int(prior_indptr[target_gram_ind]), int(prior_indptr[target_gram_ind + 1])
        outside = np.concatenate([d[:lo], d[hi:]])
        if outside.size and np.any(outside != 0):
            state["violations"].append(("writes-outside-own-row", {"row": int(target_gram_ind), "slice": [lo, hi], "touched": np.nonzero(d)[0].tolist()[:10]}))
        tot = float(d.sum())
        # the posterior array is float32: each touched cell is rounded to its own ulp, which grows with the accumulated value
        touched = int(np.count_nonzero(d))
        n_adds = max(touched, int(sum(len(w) for w in windows)), 1)  # one float32 rounding per `+=` of a window context
        slack = 1e-5 + 2.0 * 2.0**-24 * n_adds * float(max(np.max(np.abs(result)) if np.size(result) else 0.0, 1.0))
        if np.any(d < -slack) or not (abs(tot) <= slack or abs(tot - 1.0) <= slack):
            state["violations"].append(("mass-not-0-or-1", {"row": int(target_gram_ind), "added": tot}))
        return True

    if icontract is not None:
        wrapped = icontract.snapshot(snap_posterior, name="before")(
            icontract.ensure(confined_to_row_and_unit_mass, error=RowAttributionBroken)(cu.em_update_matrix))
    else:  # same postcondition as a plain wrapper
        orig = cu.em_update_matrix

        class _Old:
            pass

        def wrapped(posterior_data, prior_indices, prior_indptr, prior_data, n_unique_tokens, target_gram_ind, windows, kernels):
            old = _Old()
            old.before = snap_posterior(posterior_data)
            result = orig(posterior_data, prior_indices, prior_indptr, prior_data, n_unique_tokens, target_gram_ind, windows, kernels)
            confined_to_row_and_unit_mass(posterior_data, prior_indptr, target_gram_ind, windows, result, old)
            return result
        ctx.note("icontract not importable: em_update_matrix postcondition installed as a plain wrapper")
    for m in (m1, m2, m3, m4):
        m.em_update_matrix = wrapped
    return state


def check_case(ctx, c, contract_state=None):
    import vectorizers as V

    okv, why = coh.valid_input(c)
    if not okv:
        return ctx.skip("invalid input: " + why)
    name = {"token": "TokenCooccurrenceVectorizer", "timed": "TimedTokenCooccurrenceVectorizer", "multi": "MultiSetCooccurrenceVectorizer", "ngram": "NgramCooccurrenceVectorizer"}[c["est"]]
    sg = coh.sig(c)
    state = {"ok": True}
    if contract_state is None and ctx.mode == "PY":
        contract_state = install_contract(ctx)

    def viol(clause, what, detail=None):
        state["ok"] = False
        ctx.violation("C11/%s/%s" % (name, clause), what, c, detail, sig=sg)

    ctx.seen("parameter_shapes", coh.shape_key(c))
    data = coh.data_of(c)
    if contract_state is not None:
        contract_state["violations"].clear()
    try:
        est = coh.build(c, V)
        M = est.fit_transform(data)
    except ValueError as e:
        if "dictionary is empty" in str(e):
            return ctx.skip("rejected input: empty vocabulary")
        viol("fit-raises/ValueError", "fit_transform raised ValueError: %s" % str(e)[:200])
        return
    except Exception as e:
        viol("fit-raises/%s/eps%s" % (type(e).__name__, "0" if c["epsilon"] == 0 else "+"), "fit_transform raised %s: %s" % (type(e).__name__, str(e)[:200]))
        return
    if contract_state is not None and contract_state["violations"]:
        k, d = contract_state["violations"][0]
        viol("em_update_matrix/%s" % k, "contract on em_update_matrix broken: %s" % k, d)
        return
    Md = M.toarray().astype(np.float64)
    # ---------- invariants, independent of the reference
    ctx.count("invariant_checks")
    if not np.all(np.isfinite(Md)) or Md.min() < 0 or Md.max() > 1 + 1e-6:
        viol("entry-outside-0-1", "entries outside [0, 1]: min %g max %g" % (np.nanmin(Md), np.nanmax(Md)))
        return
    cs = Md.sum(0)
    if np.any(cs > 1 + 1e-5):
        viol("column-sum-above-1", "a column sums to %g" % cs.max())
        return
    if c["epsilon"] == 0 and np.any((cs > 0) & (np.abs(cs - 1) > 1e-5)):
        viol("column-sum-not-1", "epsilon=0 but a non-empty column sums to %g" % cs[(cs > 0)][np.argmax(np.abs(cs[cs > 0] - 1))])
        return
    ref = coh.reference(c, est)
    if ref.M is None:
        return ctx.skip(ref.why or "ambiguous")
    if Md.shape != ref.M.shape:
        viol("shape", "shape %s vs reference %s" % (Md.shape, ref.M.shape))
        return
    if np.any((Md > 0) & (ref.M == 0)):
        i, j = [int(x) for x in np.argwhere((Md > 0) & (ref.M == 0))[0]]
        viol("support-grows", "cell (%d,%d) is non-zero but is zero in the n_iter=0 matrix" % (i, j))
        return
    # ---------- documented procedure
    if c["est"] == "multi":
        E, amb = R.em(None, ref.n_rows, ref.n, ref.wins, None, ref.P, ref.M, c["n_iter"], c["epsilon"], multi=ref.multi)
    else:
        E, amb = R.em(ref.seqs, ref.n_rows, ref.n, ref.wins, ref.radii, ref.P, ref.M, c["n_iter"], c["epsilon"], rows_of=ref.rows_of, times=ref.times, ngram=ref.ngram)
    if amb:
        return ctx.skip("a value within 1e-4 (relative) of epsilon at some thresholding step")
    if getattr(R.em, "last_exact_hits", 0):
        ctx.count("cells_exactly_at_epsilon", R.em.last_exact_hits)
    ctx.count("em_compared")
    if ctx.mode != "PY":
        ctx.count("jit_em_compared")
    tol = 2e-4 * (c["n_iter"] + 1) * np.abs(E) + 1e-6
    bad = np.abs(Md - E) > tol
    if bad.any():
        i, j = [int(x) for x in np.argwhere(bad)[0]]
        viol("differs-from-documented-procedure/n_iter%d/eps%s" % (min(c["n_iter"], 1), "0" if c["epsilon"] == 0 else "+"),
             "cell (%d,%d) = %.8g, documented procedure gives %.8g; %d cells differ" % (i, j, Md[i, j], E[i, j], int(bad.sum())),
             {"got_row": Md[i].tolist()[:30], "expected_row": E[i].tolist()[:30]})
        return
    if state["ok"]:
        nz = ref.M != 0
        nt = nz.sum() >= 3 and (nz.any(0)).sum() >= 2 and (c["n_iter"] >= 1 or np.any((E == 0) & nz))
        ctx.ok(sg, bool(nt))


def run(ctx):
    if ctx.mode == "PY":
        cs = install_contract(ctx)
        for i in ctx.indices(ctx.pick(1600, 12000)):
            r = ctx.rng(i)
            c = coh.gen_case(r, em=True, lengths=[0, 1, 2, 3, 5, 8, 20, 40])
            c["n_threads"] = r.choice([1, 1, 3])
            if i < 2:
                ctx.sample(c)
            check_case(ctx, c, cs)
        # the boundary itself: dyadic epsilon, so that count/column-sum == epsilon happens exactly ("below epsilon" is strict)
        for i in ctx.indices(ctx.pick(500, 4000)):
            r = ctx.rng("boundary", i)
            c = coh.gen_case(r, em=True, lengths=[0, 1, 2, 3, 5, 8])
            c["n_threads"] = 1
            c["n_iter"] = r.choice([0, 0, 1])
            c["epsilon"] = r.choice([0.5, 0.25, 0.125])
            check_case(ctx, c, cs)
    else:
        shapes = coh.SHAPES[ctx.shard :: ctx.nshards]
        for si, shape in enumerate(shapes):
            for k in range(ctx.pick(30, 200) if shape[0] != "ngram" else ctx.pick(8, 40)):
                r = ctx.rng("jit", shape[0], shape[1], str(shape[2]), shape[3], k)
                c = coh.gen_case(r, shape=shape, em=True, lengths=[0, 1, 2, 3, 5, 8, 20, 40])
                c["n_threads"] = r.choice([1, 1, 3])
                if k < 1:
                    ctx.sample(c)
                check_case(ctx, c)


PARTS = {"em": run}
CHECKS = {"em": check_case}
