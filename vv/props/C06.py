"""C06 — N-gram, skip-gram and edge-list matrices hold exact counts; '+' merges models."""
import collections

import numpy as np

from vv.ref import cooc as R

ID = "C06"
LEVEL = "exploration"
TECHNIQUE = "runtime monitoring: independent counting oracle for NgramVectorizer / SkipgramVectorizer / EdgeListVectorizer cells (fit and transform) and a model-fitted-on-the-concatenation oracle for '+'"
LEVEL_TEXT = ("Every cell of the matrices produced by the real estimators, for training data and for new data mixing known and unknown vocabulary, is "
              "compared with counts computed directly from the raw input and the fitted dictionaries; (a+b) is compared — columns, training "
              "matrix and transform — with one model fitted on the concatenated corpora. Held = no violation on the executions produced.")
LEVEL_NOTE = "Skip-gram weights use the kernels' documented defaults (flat 1, harmonic 1/d, geometric 0.9^d); 'variable' windows are skipped when a radius sits on a rounding boundary."
RULE = ("case = (corpus or edge list, estimator parameters, transform set); non-trivial when the expected matrix has >= 2 non-zero cells in >= 2 "
        "columns; distinct = hash of the case")
ASSUMPTIONS = [
    "n-gram = run of n consecutive kept tokens (pruned tokens are deleted first, or replaced by the mask when masking is on)",
    "skip-gram (a,b) weight = sum over occurrences of a of kernel(d) for each b at distance d <= radius(a) after it",
    "SkipgramVectorizer.kernel_args cannot be passed (the constructor star-expands its values), so only kernel defaults are exercised",
]
MIN_NONTRIVIAL = {"quick": 150, "thorough": 1500}
REQUIRED = {"quick": {"ngram_cells": 3000, "skipgram_cells": 2000, "edge_cells": 500, "add_pairs": 60},
            "thorough": {"ngram_cells": 30000, "skipgram_cells": 20000, "edge_cells": 5000, "add_pairs": 600}}


def plan(tier, seed):
    q = tier == "quick"
    return [
        {"part": "ngram", "mode": "PY", "shards": 3 if q else 6},
        {"part": "skip", "mode": "PY", "shards": 3 if q else 6},
        {"part": "edge", "mode": "PY", "shards": 1 if q else 3},
        {"part": "add", "mode": "PY", "shards": 2 if q else 4},
        {"part": "ngram", "mode": "JIT", "shards": 1 if q else 2, "weight": 3},
        {"part": "skip", "mode": "JIT", "shards": 2 if q else 3, "weight": 3},
        {"part": "skip", "mode": "BC", "shards": 1 if q else 2, "weight": 3},
    ]


def _sig(c):
    return hash(str(c)) % 10**12


def gen_docs(r, vocab, ndoc=None, maxlen=14, unseen=0.0):
    out = []
    for _ in range(ndoc or r.randint(1, 6)):
        L = r.choice([0, 1, 2, 3, 6, maxlen])
        out.append([("u%d" % r.randrange(3)) if r.random() < unseen else "t%d" % r.randrange(vocab) for _ in range(L)])
    return out


# ------------------------------------------------------------------ n-grams
def ngrams(seq, n, beh):
    out = []
    for i in range(len(seq)):
        for j in ([n] if beh == "exact" else range(1, n + 1)):
            if i + j <= len(seq):
                out.append(tuple(seq[i : i + j]))
    return out


def gen_ngram(r):
    vocab = r.randint(2, 7)
    docs = gen_docs(r, vocab)
    if not any(docs):
        docs[0] = ["t0", "t1", "t0"]
    n = r.choice([1, 2, 2, 3, 4])
    c = {"docs": docs, "test": gen_docs(r, vocab + 1, unseen=0.2) + [[]], "n": n, "beh": r.choice(["exact", "exact", "subgrams"]),
         "min_occurrences": r.choice([None, None, 2]), "token_dictionary": None, "mask": None}
    if r.random() < 0.2:
        toks = sorted(set(t for d in docs for t in d))
        r.shuffle(toks)
        c["token_dictionary"] = toks[: max(1, len(toks) - 1)] + ["zz_unused"]
        c["min_occurrences"] = None
    if c["min_occurrences"] and r.random() < 0.5:
        c["mask"] = "[M]"
    c["ngram_dictionary"] = None
    if not c["min_occurrences"] and not c["token_dictionary"] and c["beh"] == "exact" and r.random() < 0.3:
        # user-supplied column dictionary: permuted and/or partial numbering of the n-grams present
        grams = sorted(set(g for d in docs for g in ngrams(d, n, "exact")))
        r.shuffle(grams)
        grams = grams[: max(1, len(grams) - r.choice([0, 0, 1, 2]))]
        c["ngram_dictionary"] = [list(g) for g in grams]
    return c


def check_ngram(ctx, c):
    import vectorizers as V

    docs, n, beh = c["docs"], c["n"], c["beh"]
    kw = dict(ngram_size=n, ngram_behaviour=beh)
    if c["min_occurrences"]:
        kw["min_occurrences"] = c["min_occurrences"]
    if c["token_dictionary"]:
        kw["token_dictionary"] = {t: i for i, t in enumerate(c["token_dictionary"])}
    if c["mask"]:
        kw["mask_string"] = c["mask"]
    if c.get("ngram_dictionary"):
        kw["ngram_dictionary"] = {(g[0] if n == 1 else tuple(g)): j for j, g in enumerate(c["ngram_dictionary"])}
    name = "NgramVectorizer"

    def viol(clause, what, detail=None):
        ctx.violation("C06/%s/%s" % (name, clause), what, c, detail, sig=_sig(c))

    # token stage as the statement defines it
    cnt = collections.Counter(t for d in docs for t in d)
    if c["token_dictionary"]:
        kept = set(c["token_dictionary"])
    elif c["min_occurrences"]:
        kept = {t for t, k in cnt.items() if k >= c["min_occurrences"]}
    else:
        kept = set(cnt)

    def kept_seq(d):
        if c["mask"]:
            return [t if t in kept else c["mask"] for t in d]
        return [t for t in d if t in kept]

    est = V.NgramVectorizer(**kw)
    try:
        M = est.fit_transform(docs)
    except Exception as e:
        grams = [g for d in docs for g in ngrams(kept_seq(d), n, beh)]
        if not grams or not kept:
            return ctx.skip("rejected input: no n-gram survives the token stage")
        viol("fit-raises/%s" % type(e).__name__, "fit raised %s: %s" % (type(e).__name__, str(e)[:160]))
        return
    cl = dict(est.column_label_dictionary_)
    lab = {(l if isinstance(l, tuple) else (l,)): j for l, j in cl.items()}
    # second stage for n>=2 with min_occurrences: n-grams with the same bound over n-gram counts
    allgrams = collections.Counter(g for d in docs for g in ngrams(kept_seq(d), n, beh))
    if n >= 2 and c["min_occurrences"]:
        expcols = {g for g, k in allgrams.items() if k >= c["min_occurrences"]}
    else:
        expcols = set(allgrams)
    if n == 1 and c["token_dictionary"]:
        expcols = {(t,) for t in c["token_dictionary"]}
    if n == 1 and c["mask"]:
        expcols = expcols | {(c["mask"],)}
    if n == 1 and not c["token_dictionary"]:
        expcols = {(t,) for t in kept} | ({(c["mask"],)} if c["mask"] else set())
    if c.get("ngram_dictionary"):
        expcols = {tuple(g) for g in c["ngram_dictionary"]}
        if {g: j for g, j in lab.items()} != {tuple(g): j for j, g in enumerate(c["ngram_dictionary"])}:
            viol("supplied-ngram-dictionary-not-used-as-given", "column_label_dictionary_ differs from the supplied ngram_dictionary")
            return
    if set(lab) != expcols:
        viol("column-set", "fitted n-gram columns differ from the n-grams present in the (kept-token) training sequences",
             {"missing": sorted(expcols - set(lab))[:8], "extra": sorted(set(lab) - expcols)[:8]})
        return
    if sorted(lab.values()) != list(range(len(lab))):
        viol("column-indices", "column indices are not 0..n-1")
        return

    known_seen = []

    def compare(M, data, which):
        M = M.toarray()
        if M.shape != (len(data), len(lab)):
            viol("%s-shape" % which, "%s output shape %s, expected (%d, %d)" % (which, M.shape, len(data), len(lab)))
            return False
        cells = 0
        for i, d in enumerate(data):
            cn = collections.Counter(ngrams(kept_seq(d), n, beh))
            for g, j in lab.items():
                cells += 1
                if M[i, j] != cn.get(g, 0):
                    if beh == "subgrams" and n >= 2 and len(g) == 1 and M[i, j] == 0:
                        # known mechanism: reported once per case, and the remaining cells are still judged
                        if not known_seen:
                            known_seen.append(1)
                            viol("subgrams/unigram-counts-zero", "subgrams mode: unigram column %r of document %d holds 0, the unigram occurs %d times" % (g, i, cn[g]))
                        continue
                    else:
                        viol("%s-count-differs/%s" % (which, beh), "%s cell (doc %d, n-gram %r) = %s, independent count = %d" % (which, i, g, M[i, j], cn.get(g, 0)),
                             {"doc": d, "row": M[i].tolist()})
                    return False
        ctx.count("ngram_cells", cells)
        return True

    if not compare(M, docs, "fit_transform"):
        return
    try:
        T = est.transform(c["test"])
    except Exception as e:
        viol("transform-raises/%s" % type(e).__name__, "transform raised %s: %s" % (type(e).__name__, str(e)[:160]))
        return
    # at transform unseen tokens are dropped (or masked when masking is on): same kept_seq rule
    if not compare(T, c["test"], "transform"):
        return
    if not compare(est.transform(docs), docs, "transform-of-training"):
        return
    if not known_seen:
        ctx.ok(_sig(c), len(lab) >= 2 and M.nnz >= 2)


# ------------------------------------------------------------------ skip-grams
def gen_skip(r):
    vocab = r.randint(2, 7)
    docs = gen_docs(r, vocab, maxlen=r.choice([8, 14, 40]))
    if sum(len(d) for d in docs) < 2:
        docs[0] = ["t0", "t1", "t0", "t1"]
    c = {"docs": docs, "test": gen_docs(r, vocab + 1, unseen=0.2) + [[], ["t0"]], "radius": r.choice([0, 1, 2, 3, 6]),
         "kernel": r.choice(["flat", "flat", "harmonic", "geometric"]), "window": r.choice(["fixed", "fixed", "variable"]),
         "min_occurrences": r.choice([None, None, 2]), "token_dictionary": None}
    if r.random() < 0.25:
        toks = sorted(set(t for d in docs for t in d))
        c["token_dictionary"] = toks + ["zz_unused1", "zz_unused2"][: r.randint(1, 2)]
        if r.random() < 0.5:
            r.shuffle(c["token_dictionary"])
        c["min_occurrences"] = None
        c["window"] = "fixed"
    return c


def check_skip(ctx, c):
    import vectorizers as V

    docs = c["docs"]
    kw = dict(window_radius=c["radius"], kernel_function=c["kernel"], window_function=c["window"])
    if c["min_occurrences"]:
        kw["min_occurrences"] = c["min_occurrences"]
    if c["token_dictionary"]:
        kw["token_dictionary"] = {t: i for i, t in enumerate(c["token_dictionary"])}
    name = "SkipgramVectorizer"

    def viol(clause, what, detail=None):
        ctx.violation("C06/%s/%s" % (name, clause), what, c, detail, sig=_sig(c))

    cnt = collections.Counter(t for d in docs for t in d)
    T = sum(cnt.values())
    if c["token_dictionary"]:
        kept = list(c["token_dictionary"])
    elif c["min_occurrences"]:
        kept = sorted(t for t, k in cnt.items() if k >= c["min_occurrences"])
    else:
        kept = sorted(cnt)
    if not kept:
        return ctx.skip("empty vocabulary")
    idx = {t: i for i, t in enumerate(kept)}
    nk = len(kept)
    if c["window"] == "variable":
        rad, amb = R.variable_radii([cnt[t] / T for t in kept], c["radius"])
        if amb:
            return ctx.skip("variable radius on a rounding boundary")
    else:
        rad = R.fixed_radii(nk, c["radius"])

    def expected(d):
        s = [idx[t] for t in d if t in idx]
        out = collections.defaultdict(float)
        for p, a in enumerate(s):
            for dist, q in enumerate(range(p + 1, min(p + int(rad[a]), len(s) - 1) + 1), start=1):
                out[(kept[a], kept[s[q]])] += R.kernel_weight(c["kernel"], dist, 0.9)
        return out

    est = V.SkipgramVectorizer(**kw)
    try:
        M = est.fit_transform(docs)
    except Exception as e:
        exp_any = any(expected(d) for d in docs)
        if not exp_any:
            return ctx.skip("no skip-gram in the training data")
        viol("fit-raises/%s" % type(e).__name__, "fit raised %s: %s" % (type(e).__name__, str(e)[:160]))
        return
    cl = dict(est.column_label_dictionary_)
    expcols = set()
    for d in docs:
        expcols |= {k for k, v in expected(d).items() if v > 0}
    if set(cl) != expcols:
        dictk = "fixed-dictionary" if c["token_dictionary"] else "learned-dictionary"
        viol("column-labels/%s" % dictk, "fitted (head, tail) column labels differ from the pairs that co-occur in training",
             {"missing": sorted(expcols - set(cl))[:8], "extra": sorted(set(cl) - expcols)[:8]})
        return

    def compare(M, data, which):
        M = M.toarray() if hasattr(M, "toarray") else np.asarray(M)
        if M.shape != (len(data), len(cl)):
            viol("%s-shape" % which, "%s output shape %s, expected (%d, %d)" % (which, M.shape, len(data), len(cl)))
            return False
        cells = 0
        for i, d in enumerate(data):
            ex = expected(d)
            for lab, j in cl.items():
                cells += 1
                if abs(M[i, j] - ex.get(lab, 0.0)) > 1e-5 * max(1.0, ex.get(lab, 0.0)):
                    viol("%s-weight-differs/%s-%s" % (which, c["kernel"], c["window"]), "%s cell (doc %d, pair %r) = %s, independent sum = %s" % (which, i, lab, M[i, j], ex.get(lab, 0.0)),
                         {"doc": d})
                    return False
        ctx.count("skipgram_cells", cells)
        return True

    if not compare(M, docs, "fit_transform"):
        return
    for which, data in (("transform", c["test"]), ("transform-of-training", docs)):
        try:
            Tm = est.transform(data)
        except Exception as e:
            viol("%s-raises/%s" % (which, type(e).__name__), "%s raised %s: %s" % (which, type(e).__name__, str(e)[:160]))
            return
        if not compare(Tm, data, which):
            return
    ctx.ok(_sig(c), len(cl) >= 2 and M.nnz >= 2)


# ------------------------------------------------------------------ edge lists
def gen_edge(r):
    nr, nc = r.randint(1, 5), r.randint(1, 5)
    joint = r.random() < 0.3
    rl = lambda: ("n%d" % r.randrange(nr)) if joint else ("r%d" % r.randrange(nr))
    cl = lambda: ("n%d" % r.randrange(nc + 1)) if joint else ("c%d" % r.randrange(nc))
    E = [[rl(), cl(), float(r.choice([1, 1, 2, 3, 0.5, -1]))] for _ in range(r.randint(1, 18))]
    Tst = [[rl(), cl(), float(r.randint(1, 4))] for _ in range(r.randint(1, 10))] + [["zz_unseen", cl(), 1.0], [rl(), "zz_unseen", 2.0]]
    if r.random() < 0.5:
        Tst = Tst[: r.randint(1, 3)]
    c = {"E": E, "T": Tst, "joint": joint, "row_dict": None, "col_dict": None, "as_columns": r.random() < 0.2}
    if not joint and r.random() < 0.3:
        rows = sorted(set(e[0] for e in E))
        c["row_dict"] = rows[: max(1, len(rows) - 1)] + ["zz_unused_row"]
    if not joint and r.random() < 0.3:
        cols = sorted(set(e[1] for e in E))
        c["col_dict"] = ["zz_unused_col"] + cols
    return c


def check_edge(ctx, c):
    import vectorizers as V

    E, joint = c["E"], c["joint"]
    kw = dict(joint_space=joint)
    if c["row_dict"]:
        kw["row_label_dictionary"] = {t: i for i, t in enumerate(c["row_dict"])}
    if c["col_dict"]:
        kw["column_label_dictionary"] = {t: i for i, t in enumerate(c["col_dict"])}
    name = "EdgeListVectorizer"

    def viol(clause, what, detail=None):
        ctx.violation("C06/%s/%s" % (name, clause), what, c, detail, sig=_sig(c))

    def fmt(edges):
        if c["as_columns"] and len(edges) != 3:
            return [[e[0] for e in edges], [e[1] for e in edges], [e[2] for e in edges]]
        return [tuple(e) for e in edges]

    est = V.EdgeListVectorizer(**kw)
    try:
        M = est.fit_transform(fmt(E)).toarray()
    except Exception as e:
        viol("fit-raises/%s" % type(e).__name__, "fit raised %s: %s" % (type(e).__name__, str(e)[:160]))
        return
    rd, cd = dict(est.row_label_dictionary_), dict(est.column_label_dictionary_)
    if joint:
        exp_r = exp_c = sorted(set(e[0] for e in E) | set(e[1] for e in E))
    else:
        exp_r = c["row_dict"] or sorted(set(e[0] for e in E))
        exp_c = c["col_dict"] or sorted(set(e[1] for e in E))
    if sorted(rd) != sorted(exp_r) or sorted(cd) != sorted(exp_c):
        viol("label-dictionaries", "row/column label dictionaries differ from the labels present (or supplied)", {"rows": rd, "cols": cd})
        return
    shape = (max(rd.values()) + 1, max(cd.values()) + 1)

    def compare(M, edges, which):
        if M.shape != shape:
            viol("%s-shape" % which, "%s output shape %s, fitted label space is %s" % (which, M.shape, shape))
            return False
        ex = np.zeros(shape)
        for a, b, w in edges:
            if a in rd and b in cd:
                ex[rd[a], cd[b]] += w
        ctx.count("edge_cells", int(ex.size))
        if not np.allclose(M, ex, rtol=1e-12, atol=1e-12):
            viol("%s-sum-differs" % which, "%s matrix differs from the per-(row,col) sums of edge values" % which, {"got": M.tolist(), "expected": ex.tolist()})
            return False
        return True

    if not compare(M, E, "fit_transform"):
        return
    for which, data in (("transform", c["T"]), ("transform-of-training", E)):
        try:
            Tm = est.transform(fmt(data)).toarray()
        except Exception as e:
            viol("%s-raises/%s" % (which, type(e).__name__), "%s raised %s: %s" % (which, type(e).__name__, str(e)[:160]))
            return
        if not compare(Tm, data, which):
            return
    ctx.ok(_sig(c), np.count_nonzero(M) >= 2)


# ------------------------------------------------------------------ a + b
def gen_add(r):
    va, vb = r.randint(1, 6), r.randint(1, 6)
    rel = r.choice(["disjoint", "overlap", "nested", "equal"])
    A = [["a%d" % r.randrange(va) for _ in range(r.choice([0, 1, 3, 8]))] for _ in range(r.randint(1, 4))]
    pre = {"disjoint": "b", "overlap": "a", "nested": "a", "equal": "a"}[rel]
    off = {"disjoint": 0, "overlap": max(0, va - 2), "nested": 0, "equal": 0}[rel]
    B = [["%s%d" % (pre, off + r.randrange(vb if rel != "equal" else va)) for _ in range(r.choice([0, 1, 3, 8]))] for _ in range(r.randint(1, 4))]
    if not any(A):
        A[0] = ["a0"]
    if not any(B):
        B[0] = [pre + str(off)]
    X = [[r.choice(["a0", "a1", pre + str(off), pre + str(off + 1), "zz"]) for _ in range(r.randint(0, 6))] for _ in range(r.randint(1, 4))]
    return {"A": A, "B": B, "X": X + A[:1] + B[:1], "rel": rel}


def check_add(ctx, c):
    import vectorizers as V

    A, B, X = c["A"], c["B"], c["X"]
    name = "NgramVectorizer.__add__"

    def viol(clause, what, detail=None):
        ctx.violation("C06/%s/%s" % (name, clause), what, c, detail, sig=_sig(c))

    from vv.mon.snapshot import diff, snap

    def state(m):
        return snap((dict(m.column_label_dictionary_), dict(m.column_index_dictionary_), m._train_matrix.toarray(), dict(m._token_dictionary_)))

    try:
        a = V.NgramVectorizer().fit(A)
        b = V.NgramVectorizer().fit(B)
        ab = V.NgramVectorizer().fit(A + B)
        sa, sb = state(a), state(b)
        s = a + b
    except Exception as e:
        viol("raises/%s" % type(e).__name__, "fit / + raised %s: %s" % (type(e).__name__, str(e)[:160]))
        return
    ctx.count("add_pairs")
    for nm, m, s0 in (("left", a, sa), ("right", b, sb)):
        d = diff(s0, state(m))
        if d:
            viol("operand-modified/%s" % nm, "'+' changed its %s operand: %s" % (nm, d[:160]))
            return
    # the same fitted model as operand of a second merge: a + x must again behave like a fit on A ++ X
    try:
        x = V.NgramVectorizer().fit(X if any(X) else A)
        s2 = a + x
        ax = V.NgramVectorizer().fit(A + (X if any(X) else A))
        l2, lax = dict(s2.column_label_dictionary_), dict(ax.column_label_dictionary_)
        if set(l2) != set(lax):
            viol("second-merge/column-set", "a + x after a + b: columns differ from a fit on the concatenation", {"sum": sorted(l2), "concat": sorted(lax)})
            return
        perm2 = [l2[t] for t in sorted(lax, key=lambda t: lax[t])]
        if s2._train_matrix.shape != ax._train_matrix.shape or not np.array_equal(s2._train_matrix.toarray()[:, perm2], ax._train_matrix.toarray()):
            viol("second-merge/train-matrix", "a + x after a + b: training matrix differs from a fit on the concatenation")
            return
    except Exception as e:
        viol("second-merge/raises-%s" % type(e).__name__, "reusing a fitted model in a second '+' raised %s: %s" % (type(e).__name__, str(e)[:160]))
        return
    ls, lab = dict(s.column_label_dictionary_), dict(ab.column_label_dictionary_)
    if set(ls) != set(lab):
        viol("column-set", "(a+b) columns differ from those of a model fitted on the concatenated corpora", {"sum": sorted(ls), "concat": sorted(lab)})
        return
    if sorted(ls.values()) != list(range(len(ls))) or {v: k for k, v in ls.items()} != dict(s.column_index_dictionary_):
        viol("column-dictionaries-inconsistent", "column_label_dictionary_ / column_index_dictionary_ of the sum are not inverse bijections")
        return
    perm = [ls[t] for t in sorted(lab, key=lambda t: lab[t])]  # concat column j  <->  sum column perm[j]
    Ms, Mc = s._train_matrix.toarray(), ab._train_matrix.toarray()
    if Ms.shape != Mc.shape or not np.array_equal(Ms[:, perm], Mc):
        viol("train-matrix", "training matrix of the sum differs from the concatenated model's (up to column order)")
        return
    try:
        Ts = s.transform(X).toarray()
    except Exception as e:
        viol("transform-raises/%s" % type(e).__name__, "(a+b).transform raised %s: %s" % (type(e).__name__, str(e)[:160]))
        return
    Tc = ab.transform(X).toarray()
    if Ts.shape != Tc.shape or not np.array_equal(Ts[:, perm], Tc):
        viol("transform-differs", "(a+b).transform(X) differs from the concatenated model's transform (up to column order)",
             {"sum_nnz": int(np.count_nonzero(Ts)), "concat_nnz": int(np.count_nonzero(Tc))})
        return
    ctx.ok(_sig(c), np.count_nonzero(Tc) >= 2)


def _runner(gen, chk, npy, njit, tag):
    def run(ctx):
        n = ctx.pick(*npy) if ctx.mode == "PY" else ctx.pick(*njit)
        for i in ctx.indices(n):
            c = gen(ctx.rng(tag, i))
            if i < 2:
                ctx.sample(c)
            chk(ctx, c)
    return run


PARTS = {"ngram": _runner(gen_ngram, check_ngram, (400, 4000), (80, 600), "n"),
         "skip": _runner(gen_skip, check_skip, (400, 4000), (120, 800), "s"),
         "edge": _runner(gen_edge, check_edge, (200, 2000), (0, 0), "e"),
         "add": _runner(gen_add, check_add, (150, 1500), (0, 0), "a")}
CHECKS = {"ngram": check_ngram, "skip": check_skip, "edge": check_edge, "add": check_add}
