"""Shared plumbing for workers: context, deterministic RNG derivation, JSON
conversion, comparison helpers.  Nothing here imports the package under test."""
import hashlib
import json
import os
import random
import sys
import time

import numpy as np

GUARD = "VECTORIZERS_VERIF"


def digest32(*parts):
    h = hashlib.sha256("|".join(str(p) for p in parts).encode()).digest()
    return int.from_bytes(h[:8], "big")


def tojson(o, depth=0):
    """Best-effort conversion of a case / detail object into JSON-serialisable data."""
    import scipy.sparse as sp

    if o is None or isinstance(o, (bool, int, str)):
        return o
    if isinstance(o, float):
        if o != o:
            return "NaN"
        if o in (float("inf"), float("-inf")):
            return "inf" if o > 0 else "-inf"
        return o
    if isinstance(o, (np.bool_,)):
        return bool(o)
    if isinstance(o, np.integer):
        return int(o)
    if isinstance(o, np.floating):
        return tojson(float(o))
    if isinstance(o, np.ndarray):
        return tojson(o.tolist(), depth + 1)
    if sp.issparse(o):
        c = o.tocoo()
        return {
            "__sparse__": o.format,
            "shape": list(o.shape),
            "row": c.row.tolist(),
            "col": c.col.tolist(),
            "data": tojson(c.data),
        }
    if isinstance(o, dict):
        return {str(k): tojson(v, depth + 1) for k, v in o.items()}
    if isinstance(o, (list, tuple, set, frozenset)):
        return [tojson(v, depth + 1) for v in o]
    if isinstance(o, bytes):
        return o.hex()
    return repr(o)


def short(o, n=600):
    s = o if isinstance(o, str) else json.dumps(tojson(o), default=repr)
    return s if len(s) <= n else s[:n] + "...(%d chars)" % len(s)


class Ctx:
    """Handed to every property part.  All observations go through here so that
    the runner can count what was actually observed."""

    def __init__(self, prop, part, mode, tier, seed, shard, nshards, out, args=None):
        self.prop, self.part, self.mode, self.tier = prop, part, mode, tier
        self.seed, self.shard, self.nshards = seed, shard, nshards
        self.args = args or {}
        self._out = out
        self._nsamples = 0
        self._counts = {}
        self.t0 = time.time()
        self.replaying = False
        self.max_samples = 3

    # ---------- deterministic randomness
    def rng(self, *salt):
        return random.Random(digest32(self.seed, self.prop, self.part, *salt))

    def nprng(self, *salt):
        return np.random.RandomState(digest32(self.seed, self.prop, self.part, *salt) % (2**32))

    def indices(self, n):
        """This shard's share of case indices 0..n-1."""
        return range(self.shard, n, self.nshards)

    @property
    def quick(self):
        return self.tier == "quick"

    def pick(self, quick, thorough):
        return quick if self.tier == "quick" else thorough

    # ---------- records
    def _w(self, rec):
        rec["part"] = self.part
        rec["mode"] = self.mode
        self._out.write(json.dumps(rec, default=repr) + "\n")
        self._out.flush()

    def begin(self, cid, case=None):
        """Announce a case that could kill the process; flushed before running it."""
        self._w({"t": "begin", "cid": cid, "case": tojson(case) if case is not None else None})

    def end(self, cid):
        self._w({"t": "end", "cid": cid})

    def ok(self, sig, nontrivial=True, n=1):
        """n evaluations judged 'held' with distinct-case signature sig."""
        k = (str(sig), bool(nontrivial))
        self._counts[k] = self._counts.get(k, 0) + n

    def violation(self, key, what, case, detail=None, sig=None):
        self._w(
            {
                "t": "viol",
                "key": key,
                "what": what,
                "case": tojson(case),
                "detail": tojson(detail),
                "sig": str(sig) if sig is not None else None,
            }
        )
        if self.replaying:
            print("VIOLATED  key=%s\n  what: %s\n  detail: %s" % (key, what, short(detail, 4000)))

    def count(self, name, n=1):
        k = ("#", name)
        self._counts[k] = self._counts.get(k, 0) + n

    def seen(self, name, value):
        """Record membership of value in a named set (distinct states, shapes, orders...)."""
        self._w({"t": "seen", "name": name, "value": tojson(value)}) if self._seen_new(name, value) else None

    def _seen_new(self, name, value):
        s = self.__dict__.setdefault("_seen", {}).setdefault(name, set())
        v = json.dumps(tojson(value), sort_keys=True, default=repr)
        if v in s:
            return False
        s.add(v)
        return True

    def skip(self, why):
        self.count("skip:" + why)

    def sample(self, data):
        if self._nsamples < self.max_samples:
            self._nsamples += 1
            self._w({"t": "sample", "data": tojson(data)})

    def result(self, cid, value):
        """Value to be compared across modes / workers by the runner (C10, C04)."""
        self._w({"t": "result", "cid": cid, "value": tojson(value)})

    def note(self, text):
        self._w({"t": "note", "text": text})

    def flush_counts(self):
        oks = {}
        for k, n in self._counts.items():
            if k[0] == "#":
                self._w({"t": "count", "name": k[1], "n": n})
            else:
                oks[k] = n
        # cases are reported as (hash of sig, nontrivial, n) to keep the log small
        batch = [[hashlib.sha1(k[0].encode()).hexdigest()[:12], k[1], n] for k, n in oks.items()]
        for i in range(0, len(batch), 2000):
            self._w({"t": "oks", "items": batch[i : i + 2000]})
        self._counts = {}

    def done(self):
        self.flush_counts()
        self._w({"t": "done", "wall": round(time.time() - self.t0, 2)})


# ------------------------------------------------------------------ comparisons
def dense(x):
    import scipy.sparse as sp

    if sp.issparse(x):
        return np.asarray(x.todense())
    return np.asarray(x)


def maxabs(a, b):
    a, b = dense(a).astype(float), dense(b).astype(float)
    if a.shape != b.shape:
        return float("inf")
    if a.size == 0:
        return 0.0
    d = np.abs(a - b)
    if np.isnan(d).any():
        # NaN in the same places counts as equal only if both are NaN there
        same = np.isnan(a) & np.isnan(b)
        d = np.where(same, 0.0, d)
        if np.isnan(d).any():
            return float("inf")
    return float(d.max())


def t32_tol(cnt, mag):
    """DESIGN §3 T32 bound: cnt contributions of total magnitude mag, summed in float32."""
    return 2.0 * (np.asarray(cnt, dtype=float) + 2.0) * 2.0**-24 * np.asarray(mag, dtype=float) + 1e-12


def repo_root():
    return os.path.realpath(os.environ.get("VV_REPO", "/repo"))


def import_repo():
    """Import the package under test from VV_REPO (default /repo) and make sure it is that one."""
    root = repo_root()
    if sys.path[0] != root:
        sys.path.insert(0, root)
    import vectorizers  # noqa

    f = os.path.realpath(vectorizers.__file__)
    if not f.startswith(root + os.sep):
        raise RuntimeError("vectorizers imported from %s, expected under %s" % (f, root))
    return vectorizers
