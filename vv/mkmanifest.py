"""Regenerates MANIFEST.json from the metadata of the property modules that exist."""
import importlib
import json
import os
import sys

HERE = os.path.dirname(os.path.dirname(os.path.abspath(__file__)))
sys.path.insert(0, HERE)
BASE = ("cd /repo && env -u VECTORIZERS_VERIF /venv/bin/python -m pytest -ra -q -p no:cacheprovider "
        "--timeout=900 --continue-on-collection-errors")


def main():
    props = [json.loads(l) for l in open(os.path.join(HERE, "properties.jsonl"))]
    checks, na = [], []
    for p in props:
        pid = p["id"]
        path = os.path.join(HERE, "vv", "props", pid + ".py")
        if not os.path.exists(path):
            na.append({"property_id": pid, "reason": "check not built yet (designed in DESIGN.md §4); no claim is made for it in this commit"})
            continue
        m = importlib.import_module("vv.props." + pid)
        checks.append({
            "property_id": pid,
            "quick_cmd": "./check %s quick" % pid,
            "thorough_cmd": "./check %s thorough" % pid,
            "evidence_file": "/verif/evidence/%s.json" % pid,
            "replay_cmd_template": "./check %s --replay {path}" % pid,
            "engine": "vv",
            "level_claimed": {"category": m.LEVEL, "text": m.LEVEL_TEXT, "design_ref": "DESIGN.md §4 " + pid},
            "level_note": m.LEVEL_NOTE,
            "technique": m.TECHNIQUE,
        })
    man = {
        "version": 1,
        "setup_cmd": "/venv/bin/pip install -q --no-index --find-links /opt/veriftools/wheels --target /verif/.deps icontract && /venv/bin/python -m vv.selftest",
        "hooks": {
            "guard": "VECTORIZERS_VERIF",
            "enable": "no source hooks are needed: workers export VECTORIZERS_VERIF=1 and observe from outside (execution mode via NUMBA_DISABLE_JIT / NUMBA_BOUNDSCHECK, name rebinding of kernels in interpreted mode, class-level wrappers, module-constant override before first JIT compile, sys.addaudithook)",
            "baseline_off_cmd": BASE,
            "source_commits": [],
            "add_only": True,
        },
        "engines": [{
            "name": "vv", "path": "/verif/vv",
            "serves_properties": [c["property_id"] for c in checks],
            "kind_free_text": "runtime monitoring: the real package executed in three modes (JIT, bounds-checked JIT, interpreted) under generated hostile workloads; reference-model oracles, invariant hooks, history/audit monitors; three-valued verdicts; ledger of known findings",
        }],
        "checks": checks,
        "not_applicable": na,
        "notes": "All checks run /repo's working tree (VV_REPO overrides the path); the JIT compile from that tree is the rebuild. exit 2 = inconclusive (never reported as held).",
    }
    json.dump(man, open(os.path.join(HERE, "MANIFEST.json"), "w"), indent=1)
    print("MANIFEST.json: %d checks, %d not_applicable" % (len(checks), len(na)))


if __name__ == "__main__":
    main()
