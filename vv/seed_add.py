"""Maintenance helper: record a confirmed breaking change under seeded/<id>/ (patch.diff, demo, meta.json)."""
import json, os, shutil, sys
HERE = os.path.dirname(os.path.dirname(os.path.abspath(__file__)))
def main():
    sid, prop, patch, demo, needs, audits = sys.argv[1], sys.argv[2], sys.argv[3], sys.argv[4], sys.argv[5], sys.argv[6:]
    d = os.path.join(HERE, "seeded", sid)
    os.makedirs(d, exist_ok=True)
    shutil.copy(patch, os.path.join(d, "patch.diff"))
    shutil.copy(demo, os.path.join(d, os.path.basename(demo) if os.path.basename(demo).startswith("demo") else "demo.py"))
    mp = os.path.join(d, "meta.json")
    if os.path.exists(mp) and os.environ.get("SEED_ROUND2"):
        meta = json.load(open(mp))
        key, ckey = "checks_run_after_strengthening", "caught_by_after_strengthening"
        meta[key] = {}
        for a in audits:
            j = json.load(open(a))
            for p, v in j["checks"].items():
                meta[key][p + "/" + j["tier"]] = {"exit": v["exit"], "violation_keys": v["violation_keys"][:6]}
        meta[ckey] = sorted(set(k.split("/")[0] for k, v in meta[key].items() if v["exit"] == 1))
        meta["strengthened_at_verif_commit"] = os.popen("git -C %s rev-parse --short HEAD" % HERE).read().strip()
        json.dump(meta, open(mp, "w"), indent=1)
        print(sid, "after strengthening caught by", meta[ckey])
        return
    meta = {"id": sid, "breaks_property": prop, "needs_to_manifest": needs, "author": "independent sub-agent given only the property text and a scratch worktree",
            "confirmed": {}, "checks_run": {}}
    for a in audits:
        j = json.load(open(a))
        meta["base_commit"] = j.get("repo_head")
        if "demo_without_change" in j:
            meta["confirmed"] = {"demo_exit_without_change": j["demo_without_change"], "demo_exit_with_change": j["demo_with_change"],
                                 "how": "python -m vv.audit (scratch worktree of /repo HEAD, demo run with PYTHONPATH=<worktree> before and after `git apply`)"}
        for p, v in j["checks"].items():
            meta["checks_run"][p + "/" + j["tier"]] = {"exit": v["exit"], "violation_keys": v["violation_keys"][:6]}
    meta["caught_by"] = sorted(set(k.split("/")[0] for k, v in meta["checks_run"].items() if v["exit"] == 1))
    json.dump(meta, open(os.path.join(d, "meta.json"), "w"), indent=1)
    print(sid, "caught by", meta["caught_by"])
main()
