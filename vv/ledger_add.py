"""Maintenance helper (never called by checks): append an entry to known_findings.json."""
import json, sys, os
HERE = os.path.dirname(os.path.dirname(os.path.abspath(__file__)))
def main():
    prop, status, key, commit, what = sys.argv[1:6]
    p = os.path.join(HERE, "known_findings.json")
    d = json.load(open(p))
    e = {"property": prop, "status": status, "key": key, "what": what}
    if status == "fixed":
        e["commit"] = commit
        e["line"] = "fixed: property=%s %s %s" % (prop, commit, what)
    d["findings"].append(e)
    json.dump(d, open(p, "w"), indent=1)
main()
