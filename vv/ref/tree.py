"""Independent reference for LabelledTreeCooccurrenceVectorizer (C15, C14): explicit
enumeration of directed walks on (independently contracted) labelled forests."""
import numpy as np

from vv.ref.cooc import kernel_weight


def kweights(kernel, R, offset=0, power=0.9, normalize=False):
    w = [kernel_weight(kernel, d, power) for d in range(1, R + 1)]
    for d in range(min(offset, R)):
        w[d] = 0.0
    if normalize and sum(w) > 0:
        s = sum(w)
        w = [x / s for x in w]
    return w


def children_lists(par):
    ch = [[] for _ in par]
    for i, p in enumerate(par):
        if p != -1:
            ch[p].append(i)
    return ch


def contract(par, labels, keepset):
    """Forest with every node whose label is not kept removed and its children re-attached
    to the nearest kept ancestor.  Returns children lists over the original node ids."""
    n = len(par)
    ch = [[] for _ in range(n)]
    for i in range(n):
        if labels[i] in keepset:
            p = par[i]
            while p != -1 and labels[p] not in keepset:
                p = par[p]
            if p != -1:
                ch[p].append(i)
    return ch


def tree_ref(trees, labdict, R, w, keepset=None, mask=None, nullify=False):
    """trees: list of (parent array, label list).  Returns the 'after' matrix A (n x n):
    A[a, b] = sum over ordered node pairs (u labelled a, v labelled b) of w[k-1] * #walks of k steps u -> v."""
    n = len(labdict)
    M = np.zeros((n, n))
    for par, labels in trees:
        labels = list(labels)
        if keepset is not None and mask is None:
            ch = contract(par, labels, keepset)
        else:
            if mask is not None and keepset is not None:
                labels = [l if l in keepset else mask for l in labels]
            ch = children_lists(par)
        for u in range(len(par)):
            if labels[u] not in labdict:
                continue
            frontier = [u]
            for k in range(1, R + 1):
                frontier = [c for f in frontier for c in ch[f]]
                if not frontier:
                    break
                for v in frontier:
                    if labels[v] in labdict:
                        M[labdict[labels[u]], labdict[labels[v]]] += w[k - 1]
    if nullify and mask is not None:
        mi = labdict[mask]
        M[mi, :] = 0
        M[:, mi] = 0
    return M


def orient(A, orientation):
    return {"after": A, "before": A.T, "symmetric": A + A.T, "directional": np.hstack([A.T, A])}[orientation]


def selftest():
    # path a->b->c, R=2 flat: (a,b)=1,(a,c)=1,(b,c)=1
    par = [-1, 0, 1]
    A = tree_ref([(par, ["a", "b", "c"])], {"a": 0, "b": 1, "c": 2}, 2, kweights("flat", 2))
    assert A.tolist() == [[0, 1, 1], [0, 0, 1], [0, 0, 0]]
    # remove b: a->c directly
    A = tree_ref([(par, ["a", "b", "c"])], {"a": 0, "c": 1}, 1, kweights("flat", 1), keepset={"a", "c"})
    assert A.tolist() == [[0, 1], [0, 0]]
    # star with repeated labels: root x, three children y: (x,y)=3
    A = tree_ref([([-1, 0, 0, 0], ["x", "y", "y", "y"])], {"x": 0, "y": 1}, 3, kweights("harmonic", 3))
    assert A.tolist() == [[0, 3], [0, 0]]
