"""Independent reference models for the co-occurrence family, written from the
property statements (C03, C11, C14) and public docstrings; plain loops, float64.
Never imports the package under test.

Conventions: sequences are lists of integer token indices into the *fitted*
vocabulary (C05 decides the vocabulary; C03 takes it as given).  `wins` is the
expanded list of (window number, side) with side in {"before", "after"}; each
occupies its own column block of width n, in that order.
"""
import math

import numpy as np


def expand(orients):
    out = []
    for i, o in enumerate(orients):
        if o == "directional":
            out += [(i, "before"), (i, "after")]
        else:
            out.append((i, o))
    return out


def kernel_weight(kind, d, power=0.9):
    """weight of a context at token distance d >= 1"""
    if kind == "flat":
        return 1.0
    if kind == "harmonic":
        return 1.0 / d
    if kind == "geometric":
        return power ** d
    raise ValueError(kind)


def fixed_radii(n, r, mask_index=None):
    rad = np.full(n + 1, int(r), dtype=int)
    if mask_index is not None:
        rad[mask_index] = 0
    return rad


def variable_radii(freq, r, power=0.75, mask_index=None):
    """Per-token radius for window function 'variable' (docstring: radius r scaled by
    f^(power-1), normalised so that the frequency-weighted mean scale is 1; anything
    in (0,1) becomes 1; rounded half-to-even).  Returns (radii[n+1], ambiguous)."""
    f = np.asarray(freq, dtype=np.float64)
    if np.any(f <= 0):
        return None, True
    rad = f ** (power - 1.0)
    rad = rad / np.sum(rad * f)
    rad = np.append(rad, rad.min())
    if mask_index is not None:
        rad[mask_index] = 0.0
    x = rad * r
    x2 = x.copy()
    x2[(x > 0) & (x < 1)] = 1.0
    frac = np.abs(x2 - np.floor(x2) - 0.5)
    # the implementation computes this with float32 frequencies: stay away from rounding boundaries
    amb = bool(np.any(frac < 1e-4) or np.any(np.abs(x - 1.0) < 1e-5) or np.any((x > 0) & (x < 1e-9)))
    return np.round(x2).astype(int), amb


def seq_cooc(seqs, n_rows, n, wins, radii, P, rows_of=None, times=None, ngram=1):
    """Windowed, kernel-weighted co-occurrence counts.

    seqs     list of lists of token indices (mask token = P['mask_index'] if masking)
    radii    radii[b][row] for block b
    P        dict kernel[i], power[i], offset[i], knorm[i], mix[i] (per *window number* i),
             normalize_windows, mask_index (index whose contexts weigh 0 when nullified, else None),
             delta (timed)
    rows_of  (seq, p) -> row index or None; default: the token itself. For n-grams p is the
             position of the n-gram's last token.
    times    per-sequence timestamps (timed kernels) or None
    Returns M, CNT (# positive contributions per cell), S (sum of |contributions|)."""
    nb = len(wins)
    M = np.zeros((n_rows, n * nb))
    CNT = np.zeros_like(M)
    for si, seq in enumerate(seqs):
        L = len(seq)
        for p in range(ngram - 1, L):
            row = seq[p] if rows_of is None else rows_of(seq, p)
            if row is None:
                continue
            poss, W = [], []
            for b, (i, side) in enumerate(wins):
                r = int(radii[b][row])
                if side == "after":
                    pos = list(range(p + 1, min(p + r, L - 1) + 1))
                else:
                    start = p - (ngram - 1)
                    pos = list(range(start - 1, max(start - r, 0) - 1, -1))
                w = []
                for d, q in enumerate(pos, start=1):
                    if times is None:
                        x = kernel_weight(P["kernel"][i], d, P["power"][i])
                    else:
                        dt = abs(float(times[si][q]) - float(times[si][p if side == "after" or ngram == 1 else p]))
                        x = 1.0 if P["kernel"][i] == "flat" else P["power"][i] ** (dt / P["delta"])
                    if P.get("mask_index") is not None and seq[q] == P["mask_index"]:
                        x = 0.0
                    if d <= P["offset"][i]:
                        x = 0.0
                    w.append(x)
                w = np.array(w, dtype=float)
                if P["knorm"][i] and w.sum() > 0:
                    w = w / w.sum()
                poss.append(pos)
                W.append(P["mix"][i] * w)
            tot = sum(w.sum() for w in W) if P["normalize_windows"] else 0.0
            if tot <= 0:
                tot = 1.0
            for b, (pos, w) in enumerate(zip(poss, W)):
                for q, x in zip(pos, w):
                    if x / tot > 0:
                        M[row, b * n + seq[q]] += x / tot
                        CNT[row, b * n + seq[q]] += 1
    return M, CNT


def multi_cooc(docs, n, wins, R, P):
    """Multiset co-occurrence.  docs: list of documents, document = list of multisets (lists of
    token indices).  Window of an occurrence = its own multiset (minus itself) followed by the R
    next / previous multisets; weight by multiset distance k (flat 1, geometric power^k), the first
    `offset` multisets of the window weigh 0 (docstring reading)."""
    nb = len(wins)
    M = np.zeros((n, n * nb))
    CNT = np.zeros_like(M)
    for doc in docs:
        for a, ms in enumerate(doc):
            for bpos, t in enumerate(ms):
                ctxs, W = [], []
                for b, (i, side) in enumerate(wins):
                    r = int(R[b])
                    idxs = list(range(a, min(a + r, len(doc) - 1) + 1)) if side == "after" else list(range(a, max(a - r, 0) - 1, -1))
                    ctx, w = [], []
                    for k, j in enumerate(idxs):
                        for pos_in, tok in enumerate(doc[j]):
                            x = 1.0 if P["kernel"][i] == "flat" else P["power"][i] ** (k - P["offset"][i])
                            if k < P["offset"][i]:
                                x = 0.0
                            if k == 0 and pos_in == bpos:
                                x = 0.0
                            if P.get("mask_index") is not None and tok == P["mask_index"]:
                                x = 0.0
                            ctx.append(tok)
                            w.append(x)
                    w = np.array(w, dtype=float)
                    if P["knorm"][i] and w.sum() > 0:
                        w = w / w.sum()
                    ctxs.append(ctx)
                    W.append(P["mix"][i] * w)
                tot = sum(w.sum() for w in W) if P["normalize_windows"] else 0.0
                if tot <= 0:
                    tot = 1.0
                for b, (ctx, w) in enumerate(zip(ctxs, W)):
                    for tok, x in zip(ctx, w):
                        if x / tot > 0:
                            M[t, b * n + tok] += x / tot
                            CNT[t, b * n + tok] += 1
    return M, CNT


# ------------------------------------------------------------------ second, differently structured reference
def flat_counts_vectorised(seqs, n, wins, R):
    """Flat kernel, fixed radii, no normalisation, mix 1: exact integer counts by shifted index
    arrays + np.add.at.  Scales to millions of events (C04) and cross-checks seq_cooc."""
    nb = len(wins)
    M = np.zeros((n, n * nb), dtype=np.int64)
    for seq in seqs:
        s = np.asarray(seq, dtype=np.int64)
        L = len(s)
        for b, (i, side) in enumerate(wins):
            r = int(R[b])
            for d in range(1, min(r, L - 1) + 1):
                if side == "after":
                    rows, cols = s[: L - d], s[d:]
                else:
                    rows, cols = s[d:], s[: L - d]
                np.add.at(M, (rows, b * n + cols), 1)
    return M


def flat_counts_sparse(seqs, n, wins, R):
    """Same counts as flat_counts_vectorised, as a scipy CSR matrix built from np.unique over the
    event list - for vocabularies whose dense matrix would not fit (keys beyond 2^24)."""
    import scipy.sparse as sp

    nb = len(wins)
    width = n * nb
    keys = []
    for seq in seqs:
        s = np.asarray(seq, dtype=np.int64)
        L = len(s)
        for b, (i, side) in enumerate(wins):
            r = int(R[b])
            for d in range(1, min(r, L - 1) + 1):
                rows, cols = (s[: L - d], s[d:]) if side == "after" else (s[d:], s[: L - d])
                keys.append(rows * width + b * n + cols)
    if not keys:
        return sp.csr_matrix((n, width), dtype=np.int64)
    k, cnt = np.unique(np.concatenate(keys), return_counts=True)
    return sp.csr_matrix((cnt.astype(np.int64), (k // width, k % width)), shape=(n, width))


def count_events(seqs, wins, R):
    """number of (occurrence, context) events per block for flat kernels (for C04's evidence)"""
    out = []
    for b, (i, side) in enumerate(wins):
        r = int(R[b])
        tot = 0
        for seq in seqs:
            L = len(seq)
            for d in range(1, min(r, L - 1) + 1):
                tot += L - d
        out.append(tot)
    return out


# ------------------------------------------------------------------ EM (C11)
def em(seqs, n_rows, n, wins, radii, P, M0, n_iter, eps, rows_of=None, times=None, ngram=1, multi=None):
    """Documented EM procedure on a dense float64 matrix.  Returns (M, ambiguous)."""

    exact_hits = [0]

    def norm_thr(M, exact=False):
        cs = M.sum(0)
        cs[cs == 0] = 1.0
        M = M / cs
        near = (np.abs(M - eps) < 1e-4 * max(eps, 1e-12)) & (M > 0) if eps > 0 else np.zeros(M.shape, dtype=bool)
        if exact:
            # integer counts and a dyadic epsilon: count/sum == epsilon is computed exactly in float32 and float64 alike,
            # so a cell *equal* to epsilon is decided ("below epsilon" is strict: it stays); only unequal near-misses are ambiguous
            eq = near & (M == eps)
            exact_hits[0] += int(eq.sum())
            near = near & ~eq
        amb = bool(np.any(near))
        M = np.where(M < eps, 0.0, M)
        return M, amb

    amb = False
    M = np.array(M0, dtype=float)
    if n_iter > 0 or eps > 0:
        dyadic = eps > 0 and float(eps * 1024).is_integer()
        ints = bool(np.all(M == np.round(M))) and float(M.sum(0).max() if M.size else 0) < 2**24
        M, a = norm_thr(M, exact=dyadic and ints)
        amb |= a
    em.last_exact_hits = exact_hits[0]
    for _ in range(n_iter):
        post = np.zeros_like(M)
        if multi is None:
            for si, seq in enumerate(seqs):
                L = len(seq)
                for p in range(ngram - 1, L):
                    row = seq[p] if rows_of is None else rows_of(seq, p)
                    if row is None:
                        continue
                    cells, vals = [], []
                    for b, (i, side) in enumerate(wins):
                        r = int(radii[b][row])
                        if side == "after":
                            pos = list(range(p + 1, min(p + r, L - 1) + 1))
                        else:
                            start = p - (ngram - 1)
                            pos = list(range(start - 1, max(start - r, 0) - 1, -1))
                        w = []
                        for d, q in enumerate(pos, start=1):
                            if times is None:
                                x = kernel_weight(P["kernel"][i], d, P["power"][i])
                            else:
                                dt = abs(float(times[si][q]) - float(times[si][p]))
                                x = 1.0 if P["kernel"][i] == "flat" else P["power"][i] ** (dt / P["delta"])
                            if P.get("mask_index") is not None and seq[q] == P["mask_index"]:
                                x = 0.0
                            if d <= P["offset"][i]:
                                x = 0.0
                            w.append(x)
                        w = np.array(w, dtype=float)
                        if P["knorm"][i] and w.sum() > 0:
                            w = w / w.sum()
                        w = P["mix"][i] * w
                        for q, x in zip(pos, w):
                            if x > 0:
                                cells.append((row, b * n + seq[q]))
                                vals.append(x * M[row, b * n + seq[q]])
                    s = sum(vals)
                    if s > 0:
                        for c, v in zip(cells, vals):
                            post[c] += v / s
        else:
            docs, R = multi
            for doc in docs:
                for a, ms in enumerate(doc):
                    for bpos, t in enumerate(ms):
                        cells, vals = [], []
                        for b, (i, side) in enumerate(wins):
                            r = int(R[b])
                            idxs = list(range(a, min(a + r, len(doc) - 1) + 1)) if side == "after" else list(range(a, max(a - r, 0) - 1, -1))
                            ctx, w = [], []
                            for k, j in enumerate(idxs):
                                for pos_in, tok in enumerate(doc[j]):
                                    x = 1.0 if P["kernel"][i] == "flat" else P["power"][i] ** (k - P["offset"][i])
                                    if k < P["offset"][i]:
                                        x = 0.0
                                    if k == 0 and pos_in == bpos:
                                        x = 0.0
                                    if P.get("mask_index") is not None and tok == P["mask_index"]:
                                        x = 0.0
                                    ctx.append(tok)
                                    w.append(x)
                            w = np.array(w, dtype=float)
                            if P["knorm"][i] and w.sum() > 0:
                                w = w / w.sum()
                            w = P["mix"][i] * w
                            for tok, x in zip(ctx, w):
                                if x > 0:
                                    cells.append((t, b * n + tok))
                                    vals.append(x * M[t, b * n + tok])
                        s = sum(vals)
                        if s > 0:
                            for c, v in zip(cells, vals):
                                post[c] += v / s
        M, a = norm_thr(post)
        amb |= a
    return M, amb


def default_P(nw, kernel="flat", normalize_windows=False):
    return dict(kernel=[kernel] * nw, power=[0.9] * nw, offset=[0] * nw, knorm=[False] * nw, mix=[1.0] * nw,
                normalize_windows=normalize_windows, mask_index=None)


# ------------------------------------------------------------------ self-test
def selftest():
    # hand-computed: sequence a b a, radius 1, after: (a,b)=1,(b,a)=1 ; before: transpose
    seqs = [[0, 1, 0]]
    wins = expand(["after"])
    M, _ = seq_cooc(seqs, 2, 2, wins, [fixed_radii(2, 1)], default_P(1))
    assert M.tolist() == [[0.0, 1.0], [1.0, 0.0]], M
    wins = expand(["directional"])
    M, _ = seq_cooc(seqs, 2, 2, wins, [fixed_radii(2, 2)] * 2, default_P(1))
    # before block: a(pos2) sees b(d1), a(d2); b sees a.  after block: a(pos0) sees b, a; b sees a
    assert M.tolist() == [[1.0, 1.0, 1.0, 1.0], [1.0, 0.0, 1.0, 0.0]], M
    # harmonic: a b c radius 2 after: (a,b)=1,(a,c)=.5,(b,c)=1
    M, _ = seq_cooc([[0, 1, 2]], 3, 3, expand(["after"]), [fixed_radii(3, 2)], default_P(1, "harmonic"))
    assert np.allclose(M, [[0, 1, 0.5], [0, 0, 1], [0, 0, 0]])
    # window normalisation: each occurrence spreads 1 over all its windows
    P = default_P(1, "flat", True)
    M, _ = seq_cooc([[0, 1, 2]], 3, 3, expand(["directional"]), [fixed_radii(3, 1)] * 2, P)
    assert np.allclose(M.sum(1), [1, 1, 1]) and np.isclose(M[1, 0], 0.5) and np.isclose(M[1, 3 + 2], 0.5)
    # the two references agree on random flat cases
    rs = np.random.RandomState(0)
    for _ in range(60):
        n = rs.randint(1, 6)
        seqs = [list(rs.randint(0, n, size=rs.randint(0, 12))) for _ in range(rs.randint(1, 4))]
        orients = list(rs.choice(["before", "after", "directional"], size=rs.randint(1, 3)))
        wins = expand(orients)
        rr = [int(rs.randint(0, 5)) for _ in orients]
        R = [rr[i] for i, _ in wins]
        A, _ = seq_cooc(seqs, n, n, wins, [fixed_radii(n, r) for r in R], default_P(len(orients)))
        B = flat_counts_vectorised(seqs, n, wins, R)
        assert np.array_equal(A, B), (seqs, orients, rr)
        assert [int(x) for x in count_events(seqs, wins, R)] == [int(A[:, b * n:(b + 1) * n].sum()) for b in range(len(wins))]
        assert np.array_equal(flat_counts_sparse(seqs, n, wins, R).toarray(), B)
    # multiset with singleton multisets == token sequence co-occurrence (distance k = token distance)
    for _ in range(20):
        n = rs.randint(2, 5)
        seq = list(rs.randint(0, n, size=rs.randint(2, 9)))
        wins = expand(["after"])
        A, _ = seq_cooc([seq], n, n, wins, [fixed_radii(n, 2)], default_P(1))
        B, _ = multi_cooc([[[t] for t in seq]], n, wins, [2], default_P(1))
        assert np.array_equal(A, B)
    # variable radii: uniform frequencies give the plain radius
    r, amb = variable_radii([0.25] * 4, 3)
    assert list(r) == [3, 3, 3, 3, 3] and not amb
    # EM with n_iter=0, eps=0 is the identity; with eps>0 it column-normalises and thresholds
    M0 = np.array([[1.0, 3.0], [1.0, 1.0]])
    M1, _ = em([], 2, 2, expand(["after"]), None, default_P(1), M0, 0, 0.3)
    assert np.allclose(M1, [[0.5, 0.75], [0.5, 0.0]])
