"""Run by MANIFEST.setup_cmd: the machinery's own sanity checks (reference models on hand-computed cases)."""
import importlib
import os
import pkgutil
import sys

HERE = os.path.dirname(os.path.dirname(os.path.abspath(__file__)))
sys.path.insert(0, HERE)


def main():
    n = 0
    import vv.ref as R
    import vv.mon as M

    for pkg, name in ((R, "vv.ref."), (M, "vv.mon.")):
        for m in pkgutil.iter_modules(pkg.__path__):
            mod = importlib.import_module(name + m.name)
            if hasattr(mod, "selftest"):
                mod.selftest()
                n += 1
    print("vv selftest ok (%d reference self-tests)" % n)


if __name__ == "__main__":
    main()
