"""Co-occurrence harness shared by C03, C04, C10, C11, C14 (and C01/C02/C13 for this family):
case generation over a menu of parameter *shapes* (what forces a JIT recompile) x random
*values*, construction of the real estimator, and the matching reference computation."""
import collections

import numpy as np

from vv.ref import cooc as R

EST = ("token", "timed", "multi", "ngram")
KERNELS = {"token": ["flat", "harmonic", "geometric"], "ngram": ["flat", "harmonic", "geometric"], "timed": ["flat", "geometric"], "multi": ["flat", "geometric"]}

# JIT shape menu: (estimator, kernel, orientations, nullify)
SHAPES = [
    ("token", "flat", ["directional"], False),
    ("token", "harmonic", ["after"], False),
    ("token", "geometric", ["before", "after"], False),
    ("token", "flat", ["after", "directional"], True),
    ("timed", "flat", ["directional"], False),
    ("timed", "geometric", ["after"], False),
    ("timed", "geometric", ["before", "after"], True),
    ("multi", "flat", ["directional"], False),
    ("multi", "geometric", ["after"], False),
    ("multi", "flat", ["before"], True),
    ("ngram", "flat", ["directional"], False),
    ("ngram", "harmonic", ["after"], False),
    ("ngram", "geometric", ["before"], True),
]


def gen_tokens(r, vocab, n, zipf=True):
    if zipf:
        return ["t%d" % min(int(r.paretovariate(1.1)) - 1, vocab - 1) for _ in range(n)]
    return ["t%d" % r.randrange(vocab) for _ in range(n)]


def gen_case(r, shape=None, lengths=None, allow_prune=True, allow_variable=True, em=False):
    if shape is None:
        est = r.choice(EST)
        kernel = r.choice(KERNELS[est])
        orients = [r.choice(["before", "after", "directional"]) for _ in range(r.randint(1, 3))]
        nullify = r.random() < 0.2
    else:
        est, kernel, orients, nullify = shape
        orients = list(orients)
    nw = len(orients)
    radii = [r.choice([0, 1, 1, 2, 3, 5, 7]) for _ in range(nw)]
    if all(x == 0 for x in radii):
        radii[0] = 2
    vocab = r.randint(1, 8) if r.random() < 0.8 else r.randint(9, 30)
    L = lengths or [0, 1, 2, 3, max(radii) - 1, max(radii), max(radii) + 1, 2 * max(radii) + 1, 15, 40]
    ndoc = r.randint(1, 6)
    zipf = r.random() < 0.6
    docs = [gen_tokens(r, vocab, max(0, r.choice(L)), zipf) for _ in range(ndoc)]
    if sum(len(d) for d in docs) < 2:
        docs[0] = gen_tokens(r, max(vocab, 2), 6, zipf) + ["t0", "t1"]
    c = {"est": est, "kernel": kernel, "orients": orients, "radii": radii, "docs": docs,
         "wfuncs": [r.choice(["fixed", "fixed", "variable"]) if (allow_variable and est == "token") else "fixed" for _ in range(nw)],
         "offset": [r.choice([0, 0, 0, 1, 2]) for _ in range(nw)], "knorm": [r.random() < 0.25 for _ in range(nw)],
         "power": [r.choice([0.5, 0.9])] * nw, "mix": [r.choice([1.0, 1.0, 0.5, 2.0]) for _ in range(nw)],
         "normalize_windows": r.random() < 0.5, "ngram": r.choice([1, 2, 2, 3]) if est == "ngram" else 1,
         "prune": None, "mask": None, "nullify": False, "n_iter": 0, "epsilon": 0.0, "n_threads": 1, "mem": None, "tokdict": None}
    if est == "timed":
        style = r.choice(["ints", "dyadic", "irregular"])
        offs = r.choice([0.0, 0.0, 1024.0, 1e6, 2.0**24 + 1, 1.7e9, 1e12])
        scale = r.choice([1e-3, 1.0, 1.0, 86400.0])
        times = []
        for d in docs:
            t, cur = [], 0.0
            for _ in d:
                step = {"ints": r.choice([1, 1, 2, 5]), "dyadic": r.choice([0.25, 0.5, 1.0, 3.0]), "irregular": r.uniform(0.1, 4.0)}[style]
                cur += step
                t.append(offs + cur * scale)
            times.append(t)
        c["times"] = times
        c["time_offset"] = offs
    if est == "multi":
        # documents of multisets of sizes 0..5
        mdocs = []
        for d in docs:
            ms, i = [], 0
            while i < len(d):
                k = r.choice([0, 1, 1, 2, 3, 5])
                ms.append(d[i : i + k])
                i += max(k, 0)
                if k == 0 and r.random() < 0.5:
                    i += 0
                if len(ms) > 60:
                    break
            mdocs.append(ms)
        c["mdocs"] = mdocs
    if allow_prune and r.random() < 0.35:
        cnt = collections.Counter(_flat_tokens(c))
        if len(cnt) >= 2:
            c["prune"] = {"min_occurrences": sorted(cnt.values())[len(cnt) // 2]}
            if r.random() < 0.6:
                c["mask"] = "[M]"
    if nullify:
        cnt = collections.Counter(_flat_tokens(c))
        if c["prune"] is None and len(cnt) >= 2:
            c["prune"] = {"min_occurrences": sorted(cnt.values())[len(cnt) // 2]}
        c["mask"] = "[M]"
        c["nullify"] = True
    if em:
        c["n_iter"] = r.choice([0, 1, 1, 2, 3])
        c["epsilon"] = r.choice([0.0, 0.0, 1e-3, 0.05, 0.2, 0.6])
        if c["n_iter"] == 0 and c["epsilon"] == 0.0:
            c["n_iter"] = 1
    return c


def _flat_tokens(c):
    if c["est"] == "multi":
        return [t for d in c["mdocs"] for ms in d for t in ms]
    return [t for d in c["docs"] for t in d]


def data_of(c):
    if c["est"] == "timed":
        return [[(t, float(x)) for t, x in zip(d, ts)] for d, ts in zip(c["docs"], c["times"])]
    if c["est"] == "multi":
        return [[list(ms) for ms in d] for d in c["mdocs"]]
    return [list(d) for d in c["docs"]]


def kernel_args(c):
    out = []
    for i in range(len(c["orients"])):
        d = {"normalize": bool(c["knorm"][i]), "offset": int(c["offset"][i])}
        if c["kernel"] == "geometric":
            d["power"] = float(c["power"][i])
        out.append(d)
    return out


def build(c, V, **over):
    nw = len(c["orients"])
    kw = dict(window_radii=list(c["radii"]), window_orientations=list(c["orients"]), kernel_functions=[c["kernel"]] * nw,
              window_functions=list(c["wfuncs"]), kernel_args=kernel_args(c), mix_weights=list(c["mix"]),
              normalize_windows=c["normalize_windows"], n_iter=c["n_iter"], epsilon=c["epsilon"], n_threads=c["n_threads"])
    if c.get("mem"):
        kw["coo_initial_memory"] = c["mem"]
    if c["prune"]:
        kw.update(c["prune"])
    if c["mask"]:
        kw["mask_string"] = c["mask"]
    if c["nullify"]:
        kw["nullify_mask"] = True
    if c.get("tokdict"):
        kw["token_dictionary"] = {t: i for i, t in enumerate(c["tokdict"])}
    kw.update(over)
    cls = {"token": V.TokenCooccurrenceVectorizer, "timed": V.TimedTokenCooccurrenceVectorizer, "multi": V.MultiSetCooccurrenceVectorizer,
           "ngram": V.NgramCooccurrenceVectorizer}[c["est"]]
    if c["est"] == "ngram":
        kw["ngram_size"] = c["ngram"]
    return cls(**kw)


def valid_input(c):
    """Inputs the docstrings accept for this estimator (DESIGN §3 input validity)."""
    if c["est"] == "multi":
        if not c["mdocs"]:
            return False, "no document"
    if len(set(_flat_tokens(c))) == 0:
        return False, "no token at all"
    if c["est"] == "ngram":
        cnt = collections.Counter(_flat_tokens(c))
        mo = (c["prune"] or {}).get("min_occurrences")
        keep = {t for t, k in cnt.items() if mo is None or k >= mo}
        lens = [len(d) if c["mask"] else sum(1 for t in d if t in keep) for d in c["docs"]]
        if max(lens) < c["ngram"]:
            return False, "no document holds an n-gram"
    return True, ""


class Ref:
    pass


def reference(c, est, data_override=None):
    """Expected matrix for the fitted estimator `est` on its training data (or data_override = a case-like
    dict with docs/times/mdocs), taking the fitted vocabulary / n-gram rows / delta as given.
    Returns Ref(M, CNT, ambiguous, n, n_rows, wins, why)."""
    src = data_override or c
    out = Ref()
    out.why = None
    td = dict(est.token_label_dictionary_)
    n = len(td)
    mask = c["mask"]
    wins = R.expand(c["orients"])
    nw = len(c["orients"])
    keep = {t: i for t, i in td.items() if t != mask} if mask else td
    mi = td.get(mask) if mask else None

    def idx(t):
        if t in keep:
            return keep[t]
        return mi

    P = dict(kernel=[c["kernel"]] * nw, power=list(c["power"]), offset=list(c["offset"]), knorm=list(c["knorm"]), mix=list(c["mix"]),
             normalize_windows=c["normalize_windows"], mask_index=(mi if c["nullify"] else None))
    out.ambiguous = False
    out.n, out.wins = n, wins
    if c["est"] == "multi":
        docs = [[[idx(t) for t in ms if idx(t) is not None] for ms in d] for d in src["mdocs"]]
        Rr = [c["radii"][i] for i, _ in wins]
        M, CNT = R.multi_cooc(docs, n, wins, Rr, P)
        out.M, out.CNT, out.n_rows, out.seqs, out.P, out.radii, out.multi = M, CNT, n, docs, P, Rr, (docs, Rr)
        if c["nullify"] and mi is not None:
            # a nullified mask contributes nothing, neither as context nor as a row of its own (C14)
            M[mi, :] = 0
            CNT[mi, :] = 0
        return out
    seqs = [[idx(t) for t in d if idx(t) is not None] for d in src["docs"]]
    times = None
    if c["est"] == "timed":
        times = [[x for t, x in zip(d, ts) if idx(t) is not None] for d, ts in zip(src["docs"], src["times"])]
        P["delta"] = float(est.delta_mean_)
        if c["kernel"] != "flat" and not (P["delta"] > 0):
            out.why = "non-positive delta_mean_"
            out.ambiguous = True
            out.M = None
            return out
    rows_of, n_rows, ngram = None, n, 1
    if c["est"] == "ngram":
        ngram = c["ngram"]
        nl = dict(est.ngram_label_dictionary_)
        inv = {i: t for t, i in td.items()}
        n_rows = len(nl)

        def rows_of(s, p, ngram=ngram, nl=nl, inv=inv):
            return nl.get("_".join(str(inv[x]) for x in s[p - ngram + 1 : p + 1]))

    # per-block radii, indexed by row
    radii = []
    if c["est"] == "ngram":
        # radius table is indexed by n-gram; 'fixed' only for this estimator in the generators
        for b, (i, side) in enumerate(wins):
            rad = np.full(n_rows + 1, c["radii"][i], dtype=int)
            if c["nullify"] and mi is not None:
                mk = nl.get("_".join([str(mask)] * ngram))
                if mk is not None:
                    rad[mk] = 0
            radii.append(rad)
    else:
        cnt = np.zeros(n)
        # frequencies as the property defines them: occurrences of kept tokens / all tokens of the training corpus
        alltok = [t for d in c["docs"] for t in d]
        ccount = collections.Counter(alltok)
        for t, i in keep.items():
            cnt[i] = ccount.get(t, 0)
        nk = len(keep)
        for b, (i, side) in enumerate(wins):
            if c["wfuncs"][i] == "fixed":
                radii.append(R.fixed_radii(n, c["radii"][i], mi if c["nullify"] else None) if True else None)
                if radii[-1].shape[0] < n + 1:
                    radii[-1] = np.append(radii[-1], c["radii"][i])
            else:
                freq = cnt[:nk] / max(1, len(alltok))
                rad, amb = R.variable_radii(freq, c["radii"][i], mask_index=None)
                if amb or rad is None:
                    out.ambiguous = True
                    out.why = "variable radius on a rounding boundary"
                    out.M = None
                    return out
                # rad has nk+1 entries (last = mask / unknown slot)
                full = np.zeros(n + 1, dtype=int)
                full[: nk + 1] = rad
                if mi is not None:
                    full[mi] = 0 if c["nullify"] else rad[nk]
                radii.append(full)
    M, CNT = R.seq_cooc(seqs, n_rows, n, wins, radii, P, rows_of=rows_of, times=times, ngram=ngram)
    out.M, out.CNT, out.n_rows, out.seqs, out.P, out.radii, out.times, out.rows_of, out.ngram, out.multi = M, CNT, n_rows, seqs, P, radii, times, rows_of, ngram, None
    return out


def sig(c):
    return hash(repr(sorted((k, repr(v)) for k, v in c.items()))) % 10**12


def shape_key(c):
    return "%s/%s/%dw%s" % (c["est"], c["kernel"], len(R.expand(c["orients"])), "/nullify" if c["nullify"] else "")
