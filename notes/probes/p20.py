"""Probe prototypes: C15 tree walks, C14 masking."""
import warnings, sys, collections
warnings.filterwarnings("ignore")
import numpy as np, scipy.sparse as sp
sys.path.insert(0,"/tmp/probe")
from ref2 import *
import vectorizers as V
print("USING", V.__file__)
seed=int(sys.argv[1]); N=int(sys.argv[2]); rs=np.random.RandomState(seed)
stats={}
def note(k,ok,info=None):
    s=stats.setdefault(k,[0,0,[]]); s[0]+=1
    if not ok:
        s[1]+=1
        if len(s[2])<2: s[2].append(info)
def tr(f):
    try: return f()
    except Exception as e:
        import traceback; return ("EXC",type(e).__name__,str(e)[:120], traceback.extract_tb(sys.exc_info()[2])[-1][1:3])
def rand_tree(n, kind):
    par=[-1]*n
    for i in range(1,n):
        par[i]= i-1 if kind=="path" else (0 if kind=="star" else rs.randint(0,i))
    if kind=="forest" and n>2: par[rs.randint(1,n)]=-1
    return par
def kweights(kernel,R,offset=0,power=0.9):
    w=[kw(kernel,d,power) for d in range(1,R+1)]
    for d in range(min(offset,R)): w[d]=0.0
    return w
def tree_ref(trees, labdict, R, w, keepset=None, mask=None, nullify=False):
    n=len(labdict); M=np.zeros((n,n))
    for par,labels in trees:
        N_=len(par); children=[[] for _ in range(N_)]
        labels=list(labels)
        if keepset is not None and mask is None:
            # contract: parent of kept node = nearest kept ancestor
            def kept_anc(i):
                p=par[i]
                while p!=-1 and labels[p] not in keepset: p=par[p]
                return p
            for i in range(N_):
                if labels[i] in keepset:
                    p=kept_anc(i)
                    if p!=-1: children[p].append(i)
        else:
            if mask is not None and keepset is not None: labels=[l if l in keepset else mask for l in labels]
            for i in range(N_):
                if par[i]!=-1: children[par[i]].append(i)
        for u in range(N_):
            if labels[u] not in labdict: continue
            frontier=[u]
            for k in range(1,R+1):
                frontier=[c for f in frontier for c in children[f]]
                for v in frontier:
                    if labels[v] in labdict: M[labdict[labels[u]],labdict[labels[v]]]+=w[k-1]
    if nullify and mask is not None:
        mi=labdict[mask]; M[mi,:]=0; M[:,mi]=0
    return M
def to_adj(par):
    n=len(par); r=[p for p in par if p!=-1]; c=[i for i,p in enumerate(par) if p!=-1]
    return sp.csr_matrix((np.ones(len(r)),(r,c)),shape=(n,n))
for rep in range(N):
    nlab=rs.randint(1,6); trees=[]
    for _ in range(rs.randint(1,5)):
        n=rs.randint(1,10); kind=str(rs.choice(["path","star","random","forest"])); par=rand_tree(n,kind)
        trees.append((par, np.array(["L%d"%rs.randint(nlab) for _ in range(n)])))
    R=int(rs.randint(1,5)); kernel=str(rs.choice(["flat","harmonic","geometric"])); orient=str(rs.choice(["before","after","symmetric","directional"])); off=int(rs.choice([0,0,1]))
    X=[(to_adj(p),l) for p,l in trees]
    kargs={"offset":off} if off else {}
    # no pruning
    v=V.LabelledTreeCooccurrenceVectorizer(window_radius=R, kernel_function=kernel, window_orientation=orient, kernel_args=kargs)
    m=tr(lambda: v.fit_transform(X))
    if isinstance(m,tuple): note("C15 exc", False, (m, [(p,list(l)) for p,l in trees])); continue
    m=m.toarray(); ld=v.token_label_dictionary_; A=tree_ref(trees,ld,R,kweights(kernel,R,off))
    exp={"after":A,"before":A.T,"symmetric":A+A.T,"directional":np.hstack([A.T,A])}[orient]
    note("C15 walks/"+orient, m.shape==exp.shape and np.allclose(m,exp,rtol=1e-6,atol=1e-9), (R,kernel,off,[(p,list(l)) for p,l in trees], m.tolist(), exp.tolist()) )
    # pruning by min_occurrences (no mask / mask / nullify)
    cnt=collections.Counter(l for _,ls in trees for l in ls); mo=int(rs.choice(list(cnt.values())))
    keep={l for l,c in cnt.items() if c>=mo}
    for mode in ("delete","mask","nullify"):
        kw_=dict(window_radius=R, kernel_function=kernel, window_orientation="after", kernel_args=kargs, min_occurrences=mo)
        if mode!="delete": kw_["mask_string"]="[M]"
        if mode=="nullify": kw_["nullify_mask"]=True
        v=V.LabelledTreeCooccurrenceVectorizer(**kw_); m=tr(lambda: v.fit_transform(X))
        if isinstance(m,tuple): note("C14/15 tree prune exc/"+mode, False, (m,mo,dict(cnt))); continue
        m=m.toarray(); ld=v.token_label_dictionary_
        okd = (set(ld)==keep) if mode=="delete" else (set(ld)==keep|{"[M]"} and ld["[M]"]==len(ld)-1)
        A=tree_ref(trees,ld,R,kweights(kernel,R,off),keepset=keep,mask=None if mode=="delete" else "[M]", nullify=(mode=="nullify"))
        note("C14/15 tree prune/"+mode, okd and m.shape==A.shape and np.allclose(m,A,rtol=1e-6,atol=1e-9), (mo,dict(cnt),ld,[(p,list(l)) for p,l in trees] if len(trees)<3 else "..", m.tolist(), A.tolist()))
    # path vs token
    paths=[(list(range(-1,n-1)), np.array(["L%d"%rs.randint(nlab) for _ in range(n)])) for n in rs.randint(1,9,size=rs.randint(1,4))]
    Xp=[(to_adj(p),l) for p,l in paths]
    vt=V.TokenCooccurrenceVectorizer(window_radii=R, kernel_functions=kernel, window_orientations="after", normalize_windows=False, kernel_args=kargs if kargs else None)
    vtree=V.LabelledTreeCooccurrenceVectorizer(window_radius=R, kernel_function=kernel, window_orientation="after", kernel_args=kargs)
    a=tr(lambda: vt.fit_transform([list(l) for _,l in paths]).toarray()); b=tr(lambda: vtree.fit_transform(Xp).toarray())
    note("C15 path==token", not isinstance(a,tuple) and not isinstance(b,tuple) and a.shape==b.shape and np.allclose(a,b,rtol=1e-5,atol=1e-7), (a if isinstance(a,tuple) else None,b if isinstance(b,tuple) else None,[list(l) for _,l in paths]))

# ---------------- C14 token masks
for rep in range(N):
    vocab=rs.randint(3,9); docs=[["t%d"%min(rs.zipf(1.4)-1,vocab-1) for _ in range(rs.randint(0,20))] for _ in range(rs.randint(1,6))]
    cnt=collections.Counter(t for d in docs for t in d)
    if len(cnt)<2: continue
    mo=sorted(cnt.values())[len(cnt)//2]; keep=sorted(t for t,c in cnt.items() if c>=mo)
    if len(keep)==len(cnt): continue
    orients=list(rs.choice(["before","after","directional"], size=rs.randint(1,3))); nw=len(orients); wins=expand(orients)
    radii=[int(rs.randint(1,5)) for _ in range(nw)]; kern=str(rs.choice(["flat","harmonic","geometric"]))
    P=dict(kernel=[kern]*nw,power=[0.9]*nw,offset=[int(rs.choice([0,0,1])) for _ in range(nw)],knorm=[False]*nw,mix=[1.0]*nw,normalize_windows=False,mask_index=None)
    kargs=[{"offset":P["offset"][i]} for i in range(nw)]
    for mode in ("delete","mask","nullify"):
        kw_=dict(window_radii=radii, window_orientations=orients, kernel_functions=[kern]*nw, window_functions=["fixed"]*nw, kernel_args=kargs, normalize_windows=False, min_occurrences=mo)
        if mode!="delete": kw_["mask_string"]="[M]"
        if mode=="nullify": kw_["nullify_mask"]=True
        v=V.TokenCooccurrenceVectorizer(**kw_); m=tr(lambda: v.fit_transform(docs))
        if isinstance(m,tuple): note("C14 token exc/"+mode, False, (m,)); continue
        m=m.toarray(); td=v.token_label_dictionary_
        exp_td={t:i for i,t in enumerate(keep)}
        if mode!="delete": exp_td["[M]"]=len(keep)
        n=len(exp_td)
        seqs=[[exp_td[t] for t in d if t in exp_td] for d in docs] if mode=="delete" else [[exp_td.get(t,len(keep)) for t in d] for d in docs]
        P2=dict(P); P2["mask_index"]=len(keep) if mode=="nullify" else None
        rad=[np.full(n+1,radii[i]) for i,_ in wins]
        if mode=="nullify":
            for r_ in rad: r_[len(keep)]=0
        M,CNT=seq_cooc(seqs, lambda s,p:s[p], n, n, wins, rad, P2)
        tol=2*(CNT+2)*2.0**-24*M+1e-12
        ok = td==exp_td and m.shape==M.shape and np.all(np.abs(m-M)<=tol)
        if mode=="nullify" and ok:
            mi=len(keep); ok = not m[mi].any() and not any(m[:,b*n+mi].any() for b in range(len(wins)))
        note("C14 token/"+mode, ok, (mode, td, exp_td, radii, orients, docs if len(str(docs))<200 else ".."))
for k in sorted(stats):
    n,b,info=stats[k]; print("%-40s %4d/%4d %s"%(k,b,n,("FAIL "+str(info)[:700]) if b else "ok"))
