"""Probe prototype: loop references for timed / multiset / ngram co-occurrence, variable radii, masks."""
import numpy as np
from fractions import Fraction

def expand(orients):
    out=[]
    for i,o in enumerate(orients):
        out += [(i,"before"),(i,"after")] if o=="directional" else [(i,o)]
    return out

def variable_radii(freq, r, power=0.75, mask_index=None):
    """freq: exact float64 frequencies of kept tokens (len n); returns radii (len n+1) and ambiguity flag"""
    f=np.asarray(freq,dtype=float)
    rad=f**(power-1); rad=rad/np.sum(rad*f); rad=np.append(rad, rad.min())
    if mask_index is not None: rad[mask_index]=0.0
    x=rad*r
    amb=False
    x2=x.copy(); x2[(x>0)&(x<1)]=1.0
    frac=np.abs(x2-np.floor(x2)-0.5)
    if np.any(frac<1e-6) or np.any(np.abs(x-1)<1e-9) : amb=True
    return np.round(x2).astype(int), amb

def kw(kind,d,power): return 1.0 if kind=="flat" else (1.0/d if kind=="harmonic" else power**d)

def seq_cooc(seqs, rows_of, n_rows, n, wins, radii, P, times=None, ngram=1):
    """generic sequence co-occurrence. rows_of(seq,p)->row index or None (for ngram: p is index of last token).
    radii[b][row] radius. times: list of arrays or None. Returns M, CNT"""
    nb=len(wins); M=np.zeros((n_rows,n*nb)); CNT=np.zeros_like(M)
    for si,seq in enumerate(seqs):
        L=len(seq)
        for p in range(ngram-1, L):
            row=rows_of(seq,p)
            if row is None: continue
            poss=[];W=[]
            for b,(i,side) in enumerate(wins):
                r=int(radii[b][row])
                if side=="after": pos=list(range(p+1, min(p+r, L-1)+1))
                else:
                    start=p-(ngram-1)
                    pos=list(range(start-1, max(start-r,0)-1, -1))
                w=[]
                for d,q in enumerate(pos, start=1):
                    if times is None: x=kw(P["kernel"][i],d,P["power"][i])
                    else:
                        dt=abs(float(times[si][q])-float(times[si][p]))
                        x=1.0 if P["kernel"][i]=="flat" else P["power"][i]**(dt/P["delta"])
                    if P["mask_index"] is not None and seq[q]==P["mask_index"]: x=0.0
                    if d<=P["offset"][i]: x=0.0
                    w.append(x)
                w=np.array(w,dtype=float)
                if P["knorm"][i] and w.sum()>0: w=w/w.sum()
                poss.append(pos); W.append(P["mix"][i]*w)
            tot=sum(w.sum() for w in W) if P["normalize_windows"] else 0
            if tot<=0: tot=1
            for b,(pos,w) in enumerate(zip(poss,W)):
                for q,x in zip(pos,w):
                    if x/tot>0:
                        M[row,b*n+seq[q]]+=x/tot; CNT[row,b*n+seq[q]]+=1
    return M,CNT

def multi_cooc(docs, n, wins, R, P):
    """docs: list of documents; document = list of multisets (lists of token indices)."""
    nb=len(wins); M=np.zeros((n,n*nb)); CNT=np.zeros_like(M)
    for doc in docs:
        for a,ms in enumerate(doc):
            for bpos,t in enumerate(ms):
                poss=[];W=[]
                for b,(i,side) in enumerate(wins):
                    r=int(R[b])
                    idxs = list(range(a, min(a+r, len(doc)-1)+1)) if side=="after" else list(range(a, max(a-r,0)-1, -1))
                    ctx=[];w=[]
                    for k,j in enumerate(idxs):
                        for pos_in,tok in enumerate(doc[j]):
                            x = 1.0 if P["kernel"][i]=="flat" else P["power"][i]**(k-P["offset"][i])
                            if k<P["offset"][i]: x=0.0
                            if k==0 and pos_in==bpos: x=0.0
                            if P["mask_index"] is not None and tok==P["mask_index"]: x=0.0
                            ctx.append(tok); w.append(x)
                    w=np.array(w,dtype=float)
                    if P["knorm"][i] and w.sum()>0: w=w/w.sum()
                    poss.append(ctx); W.append(P["mix"][i]*w)
                tot=sum(w.sum() for w in W) if P["normalize_windows"] else 0
                if tot<=0: tot=1
                for b,(ctx,w) in enumerate(zip(poss,W)):
                    for tok,x in zip(ctx,w):
                        if x/tot>0: M[t,b*n+tok]+=x/tot; CNT[t,b*n+tok]+=1
    return M,CNT
