import warnings, sys, os, tempfile, time
warnings.filterwarnings("ignore")
import numpy as np, scipy.sparse as sp
from scipy.spatial.distance import pdist
import vectorizers as V
from vectorizers.linear_optimal_transport import lot_vectors_sparse_internal
from pynndescent.distances import cosine, named_distances
print("USING", V.__file__)
rs=np.random.RandomState(int(sys.argv[1]))
def rep(name,a,b): print("%-52s max|diff|=%.3e scale=%.3e"%(name,np.abs(np.asarray(a)-np.asarray(b)).max(),np.abs(a).max()),flush=True)
for metric in ("cosine","euclidean"):
    npts=30; dim=4; vec=rs.normal(size=(npts,dim)); n=10
    X=sp.random(n,npts,density=0.3,random_state=rs.randint(1<<30),format="lil")
    for i in range(n):
        if len(X.rows[i])<2:
            for j in rs.choice(npts,2,replace=False): X[i,j]=rs.rand()+0.1
    X=X.tocsr()
    refv=rs.normal(size=(5,dim)); 
    if metric=="cosine": refv/=np.linalg.norm(refv,axis=1,keepdims=True)
    refd=np.full(5,0.2)
    td=tempfile.mkdtemp(dir="/tmp/probe")
    kw=dict(n_components=n, metric=metric, random_state=11, cachedir=td)
    w_sp=V.WassersteinVectorizer(input_method="spmatrix", **kw); e_sp=w_sp.fit_transform(X, vectors=vec, reference_vectors=refv, reference_distribution=refd)
    dl=[np.array(r,dtype=float) for r in X.tolil().data]; vl=[np.ascontiguousarray(vec[r]) for r in X.tolil().rows]
    w_l=V.WassersteinVectorizer(input_method="lil", **kw); e_l=w_l.fit_transform(dl, vectors=vl, reference_vectors=refv, reference_distribution=refd)
    w_g=V.WassersteinVectorizer(input_method="generator", generator_vector_dim=dim, generator_n_distributions=n, **kw)
    e_g=w_g.fit_transform((d/d.sum() for d in dl), vectors=(v for v in vl), reference_vectors=refv, reference_distribution=refd)
    rep(metric+" spmatrix vs lil (fit)", e_sp, e_l); rep(metric+" spmatrix vs generator (fit)", e_sp, e_g)
    t_sp=w_sp.transform(X,vectors=vec); t_l=w_l.transform(dl,vectors=vl); t_g=w_g.transform((d/d.sum() for d in dl), vectors=(v for v in vl))
    rep(metric+" transform sp vs lil", t_sp,t_l); rep(metric+" transform sp vs gen", t_sp,t_g); rep(metric+" fit_transform vs transform (sp)", e_sp,t_sp)
    # multi-block fit
    w_mb=V.WassersteinVectorizer(input_method="spmatrix", memory_size="1k", **kw); e_mb=w_mb.fit_transform(X, vectors=vec, reference_vectors=refv, reference_distribution=refd)
    print("   pdist single-block vs multi-block rel err: %.3e"%(np.abs(pdist(e_sp)-pdist(e_mb)).max()/pdist(e_sp).max()), "leftover in cachedir:", os.listdir(td))
    # full-rank distances vs raw LOT vectors
    Xn=sp.csr_matrix(X/ X.sum(axis=1)); vv= vec/np.linalg.norm(vec,axis=1,keepdims=True) if metric=="cosine" else vec
    raw=lot_vectors_sparse_internal(Xn.indptr,Xn.indices,Xn.data.astype(np.float64),vv,refv,refd,metric=named_distances[metric],max_distribution_size=256,chunk_size=256,spherical_vectors=(metric=="cosine"))
    print("   pdist embedding vs raw rel err: %.3e (single) %.3e (multi)"%(np.abs(pdist(e_sp)-pdist(raw)).max()/pdist(raw).max(), np.abs(pdist(e_mb)-pdist(raw)).max()/pdist(raw).max()))
    # determinism
    e2=V.WassersteinVectorizer(input_method="spmatrix", **kw).fit_transform(X, vectors=vec, reference_vectors=refv, reference_distribution=refd); rep(metric+" same seed refit", e_sp, e2)
    # Heuristic / Approximate refit relations via pdist
    h=V.WassersteinVectorizer(method="HeuristicLinearAlgebra", n_components=dim, random_state=3).fit_transform(X, vectors=vec)
    q=rs.permutation(npts); h2=V.WassersteinVectorizer(method="HeuristicLinearAlgebra", n_components=dim, random_state=3).fit_transform(X[:,q].tocsr(), vectors=vec[q])
    D=sp.diags(rs.rand(n)*5+0.2); h3=V.WassersteinVectorizer(method="HeuristicLinearAlgebra", n_components=dim, random_state=3).fit_transform((D@X).tocsr(), vectors=vec)
    print("   heuristic pdist perm rel err %.3e scale rel err %.3e"%(np.abs(pdist(h)-pdist(h2)).max()/pdist(h).max(), np.abs(pdist(h)-pdist(h3)).max()/pdist(h).max()))
    a=V.ApproximateWassersteinVectorizer(random_state=3).fit_transform(X, vectors=vec); a3=V.ApproximateWassersteinVectorizer(random_state=3).fit_transform((D@X).tocsr(), vectors=vec)
    print("   approx pdist scale rel err %.3e"%(np.abs(pdist(a)-pdist(a3)).max()/pdist(a).max()))
