"""Probe prototypes: C05 vocabulary, C06 counts, C16 LZ, C17 KL, C19 sliding windows, C20 histogram/KDE."""
import warnings, sys, re, math, itertools, collections
warnings.filterwarnings("ignore")
import numpy as np, scipy.sparse as sp
from fractions import Fraction
import vectorizers as V
from vectorizers.transformers import *
from vectorizers.transformers.info_weight import information_weight
print("USING", V.__file__)
seed=int(sys.argv[1]); N=int(sys.argv[2]); rs=np.random.RandomState(seed)
stats={}
def note(k,ok,info=None):
    s=stats.setdefault(k,[0,0,[]]); s[0]+=1
    if not ok:
        s[1]+=1
        if len(s[2])<2: s[2].append(info)
def tr(f):
    try: return f()
    except Exception as e: return ("EXC",type(e).__name__,str(e)[:100])

# ---------------- C05
def expected_vocab(docs, P):
    flat=[t for d in docs for t in d]; T=len(flat); cnt=collections.Counter(flat); D=len(docs)
    dcnt=collections.Counter(t for d in docs for t in set(d))
    keep=[]
    for t,c in cnt.items():
        ok=True
        if P.get("min_occurrences") is not None and c<P["min_occurrences"]: ok=False
        if P.get("max_occurrences") is not None and c>P["max_occurrences"]: ok=False
        if P.get("min_document_occurrences") is not None and dcnt[t]<P["min_document_occurrences"]: ok=False
        if P.get("max_document_occurrences") is not None and dcnt[t]>P["max_document_occurrences"]: ok=False
        if P.get("excluded_tokens") and t in P["excluded_tokens"]: ok=False
        if P.get("excluded_token_regex") and re.fullmatch(P["excluded_token_regex"], t): ok=False
        if ok: keep.append(t)
    return sorted(keep), cnt
for rep in range(N):
    vocab=rs.randint(2,12); docs=[["t%d"%min(rs.zipf(1.5)-1,vocab-1) for _ in range(rs.randint(0,25))] for _ in range(rs.randint(1,8))]
    if not any(docs): continue
    flat=[t for d in docs for t in d]; cnt=collections.Counter(flat)
    P={}
    if rs.rand()<0.5: P["min_occurrences"]=int(rs.choice(list(cnt.values())))
    if rs.rand()<0.4: P["max_occurrences"]=int(rs.choice(list(cnt.values())))
    if rs.rand()<0.3: P["min_document_occurrences"]=int(rs.randint(1,len(docs)+1))
    if rs.rand()<0.3: P["max_document_occurrences"]=int(rs.randint(1,len(docs)+1))
    if rs.rand()<0.3: P["excluded_tokens"]={"t%d"%rs.randint(vocab)}
    if rs.rand()<0.3: P["excluded_token_regex"]="t[0-2]"
    exp,_=expected_vocab(docs,P)
    for cls in (V.TokenCooccurrenceVectorizer, V.NgramVectorizer):
        kw=dict(P)
        if cls is V.NgramVectorizer: pass
        else: kw["window_radii"]=2
        v=cls(**kw); r=tr(lambda: v.fit(docs))
        if isinstance(r,tuple):
            note("C05 exc/"+cls.__name__, len(exp)==0 and r[1]=="ValueError", (P,docs if len(str(docs))<200 else "..",r,exp))
        else:
            d=v.token_label_dictionary_ if hasattr(v,"token_label_dictionary_") and cls is not V.NgramVectorizer else v.column_label_dictionary_
            note("C05 set/"+cls.__name__, sorted(d)==exp and [d[t] for t in exp]==list(range(len(exp))), (P, sorted(d), exp, docs if len(str(docs))<200 else ".."))
    # max_unique_tokens
    k=int(rs.randint(1,vocab+1)); v=V.TokenCooccurrenceVectorizer(max_unique_tokens=k, window_radii=1); r=tr(lambda: v.fit(docs))
    if not isinstance(r,tuple):
        kept=set(v.token_label_dictionary_); dropped=set(cnt)-kept
        ok=len(kept)<=k and all(cnt[a]>=cnt[b] for a in kept for b in dropped) and (len(cnt)>k or not dropped)
        note("C05 max_unique", ok, (k, dict(cnt), kept))
# exhaustive (count,total)
from vectorizers.preprocessing import construct_token_dictionary_and_frequency, prune_token_dictionary
bad=0; tot=0
for T in range(1,121):
    for c in range(1,T+1):
        seq=["a"]*c+["b"]*(T-c)
        d,f,n=construct_token_dictionary_and_frequency(seq)
        for kw in (dict(min_occurrences=c),dict(max_occurrences=c),dict(min_frequency=c/T),dict(max_frequency=c/T)):
            nd,_=prune_token_dictionary(dict(d),f,total_tokens=n,**{**dict(min_frequency=None,max_frequency=None),**kw})
            tot+=1
            if "a" not in nd: bad+=1
note("C05 exhaustive(count,total) T<=120 pairs=%d"%tot, bad==0, bad)

# ---------------- C06 ngram counts / skipgram / edgelist
def ngrams(seq,n,beh):
    out=[]
    for i in range(len(seq)):
        for j in ([n] if beh=="exact" else range(1,n+1)):
            if i+j<=len(seq): out.append(tuple(seq[i:i+j]))
    return out
for rep in range(N):
    vocab=rs.randint(2,7); docs=[["t%d"%rs.randint(vocab) for _ in range(rs.randint(0,12))] for _ in range(rs.randint(1,6))]
    if not any(docs): continue
    n=int(rs.choice([1,2,3])); beh=str(rs.choice(["exact","subgrams"]))
    v=V.NgramVectorizer(ngram_size=n, ngram_behaviour=beh); m=tr(lambda: v.fit_transform(docs))
    if isinstance(m,tuple): note("C06 ngram exc", not any(len(d)>=(n if beh=="exact" else 1) for d in docs), (m,docs)); continue
    m=m.toarray(); ok=m.shape[0]==len(docs)
    for i,d in enumerate(docs):
        c=collections.Counter(ngrams(d,n,beh))
        for lab,j in v.column_label_dictionary_.items():
            key=lab if isinstance(lab,tuple) else (lab,)
            if m[i,j]!=c.get(key,0): ok=False
    allg=set(g for d in docs for g in ngrams(d,n,beh)); labs=set((l if isinstance(l,tuple) else (l,)) for l in v.column_label_dictionary_)
    note("C06 ngram %s"%beh, ok and allg==labs, (n,beh,docs,v.column_label_dictionary_, m.tolist()) if len(str(docs))<200 else (n,beh))
    # skipgram flat radius r
    r=int(rs.randint(1,4)); s=V.SkipgramVectorizer(window_radius=r); m=tr(lambda: s.fit_transform(docs))
    if isinstance(m,tuple): note("C06 skip exc", False, (m,docs)); continue
    m=m.toarray(); ok=m.shape[0]==len(docs); exp_cols=set()
    for i,d in enumerate(docs):
        c=collections.Counter()
        for p,a in enumerate(d):
            for q in range(p+1,min(p+r,len(d)-1)+1): c[(a,d[q])]+=1
        exp_cols|=set(c)
        for lab,j in s.column_label_dictionary_.items():
            if abs(m[i,j]-c.get(lab,0))>1e-6: ok=False
    note("C06 skipgram", ok and exp_cols==set(s.column_label_dictionary_), (r,docs) if len(str(docs))<200 else r)
    # edge list
    E=[("r%d"%rs.randint(4),"c%d"%rs.randint(4),float(rs.randint(1,5))) for _ in range(rs.randint(1,15))]
    e=V.EdgeListVectorizer(); m=e.fit_transform(E).toarray(); c=collections.Counter()
    for a,b,w in E: c[(a,b)]+=w
    ok=all(m[e.row_label_dictionary_[a],e.column_label_dictionary_[b]]==w for (a,b),w in c.items()) and m.sum()==sum(c.values())
    note("C06 edgelist", ok, E)

# ---------------- C16 LZ
def lz_ref(s, base=None, cap=1<<16):
    d=dict(base or {}); size=len(d); start=0
    for end in range(len(s)):
        g=s[start:end]
        if g in d: d[g]+=1
        elif size>=cap: start=end
        else: d[g]=1; size+=1; start=end
    return d
for rep in range(N):
    S=["".join(rs.choice(list("ab" if rs.rand()<0.5 else "abcd"), size=rs.randint(0,40))) for _ in range(rs.randint(1,6))]
    cap=int(rs.choice([2,3,5,1<<16])); base=None if rs.rand()<0.7 else {"a":1,"b":2}
    v=V.LZCompressionVectorizer(max_columns=None, max_dict_size=cap, base_dictionary=base); m=tr(lambda: v.fit_transform(S))
    if isinstance(m,tuple): note("C16 exc", False, (m,S)); continue
    m=m.toarray(); ok=True; cl=dict(v.column_label_dictionary_)
    for i,s in enumerate(S):
        d=lz_ref(s,base,cap)
        for g,cnt in d.items():
            if g not in cl or m[i,cl[g]]!=cnt: ok=False
        if m[i].sum()!=sum(d.values()): ok=False
        if cap==1<<16 and m[i].sum()!=len(s)+sum((base or {}).values()): ok=False
    note("C16 rows", ok, (S,cap,base))
    T=S+["".join(rs.choice(list("abxy"), size=rs.randint(0,30))) for _ in range(3)]
    t=tr(lambda: v.transform(T))
    if isinstance(t,tuple): note("C16 transform exc", False, (t,)); continue
    t=t.toarray(); ok=t.shape==(len(T),len(cl))
    for i,s in enumerate(T):
        d=lz_ref(s,base,cap)
        for g,j in cl.items():
            if ok and t[i,j]!=d.get(g,0): ok=False
    note("C16 transform", ok, (T,))

# ---------------- C17 KL
for rep in range(N):
    n,m=rs.randint(2,9),rs.randint(2,8); A=np.floor(rs.rand(n,m)*4*(rs.rand(n,m)<0.5))
    if A.sum()==0: continue
    s=float(rs.choice([1e-4,0.1,5.0])); b=A.sum(1)/A.sum(); ref=np.zeros(m)
    for j in range(m):
        q=(A[:,j]+s*b)/(A[:,j].sum()+s); mask=(q>0)&(b>0); ref[j]=np.sum(q[mask]*np.log(q[mask]/b[mask]))
    for fmt in ("csr","csc","coo","dense-as-csr-unsorted"):
        if fmt=="dense-as-csr-unsorted":
            X=sp.csc_matrix(A); 
            for j in range(m):
                lo,hi=X.indptr[j],X.indptr[j+1]; p=rs.permutation(hi-lo); X.indices[lo:hi]=X.indices[lo:hi][p]; X.data[lo:hi]=X.data[lo:hi][p]
            X.has_sorted_indices=False
        else: X=getattr(sp,fmt+"_matrix")(A)
        w=tr(lambda: information_weight(X, prior_strength=s))
        note("C17 KL/"+fmt, not isinstance(w,tuple) and np.all(np.isfinite(w)) and np.allclose(w,ref,rtol=1e-9,atol=1e-12) and np.all(w>=-1e-12), (fmt, A.tolist(), s, w if isinstance(w,tuple) else (w-ref).tolist()))

# ---------------- C19
from numpy.lib.stride_tricks import sliding_window_view
for rep in range(N):
    L=rs.randint(3,30); x=rs.normal(size=L); w=int(rs.randint(1,L+1)); st=int(rs.randint(1,5)); pad=int(rs.choice([0,0,1,3]))
    kind=rs.choice(["none","int","pair","list"]); 
    if kind=="none": smp=None; pos=np.arange(w)
    elif kind=="int": k=int(rs.randint(1,w+1)); smp=k; pos=np.arange(0,w,k)
    elif kind=="pair": a=int(rs.randint(0,w)); k=int(rs.randint(1,w+1)); smp=(a,k); pos=np.arange(a,w,k)
    else: pos=rs.choice(w,size=rs.randint(1,w+1),replace=True); smp=[int(p) for p in pos]
    tfm=SlidingWindowTransformer(window_width=w, window_stride=st, window_sample=smp, pad_width=pad, pad_value=7.0)
    out=tr(lambda: tfm.fit([x]).transform([x])[0])
    xp=np.concatenate([np.full(pad,7.0),x,np.full(pad,7.0)]) if pad else x
    exp=sliding_window_view(xp,w)[::st][:,pos] if len(xp)>=w else np.zeros((0,len(pos)))
    note("C19 windows/"+kind, not isinstance(out,tuple) and out.shape==exp.shape and np.allclose(out,exp), (L,w,st,pad,smp, out if isinstance(out,tuple) else (out.shape,exp.shape)))
    s=int(rs.randint(1,5))
    if L>s:
        out=tr(lambda: SequentialDifferenceTransformer(stride=s).fit([x]).transform([x])[0])
        note("C19 diff", not isinstance(out,tuple) and np.allclose(np.ravel(out), x[s:]-x[:-s]), (L,s,out if isinstance(out,tuple) else out.shape))

# ---------------- C20
for rep in range(N):
    X=[rs.uniform(0,10,size=rs.randint(1,30)).round(int(rs.choice([0,1,3]))) for _ in range(rs.randint(2,6))]
    kw=dict(n_components=int(rs.randint(2,9)), append_outlier_bins=bool(rs.rand()<0.5), absolute_range=[(-np.inf,np.inf),(0,10),(-1,20),(2,8)][rs.randint(4)], strategy=str(rs.choice(["uniform","quantile"])))
    h=V.HistogramVectorizer(**kw); r=tr(lambda: h.fit(X))
    if isinstance(r,tuple): note("C20 fit exc", False, (kw,r)); continue
    iv=list(h.bin_intervals_); ok=all(a.right==b.left for a,b in zip(iv[:-1],iv[1:])) and all(i.closed=="right" and i.left<i.right for i in iv) and iv[0].left==kw["absolute_range"][0] and iv[-1].right==kw["absolute_range"][1]
    note("C20 partition", ok, (kw, iv))
    allv=np.concatenate(X); T=X+[np.array([allv.min(),allv.max(),allv.min()-5,allv.max()+5,kw["absolute_range"][0] if np.isfinite(kw["absolute_range"][0]) else -1e9, kw["absolute_range"][1] if np.isfinite(kw["absolute_range"][1]) else 1e9]+[i.right for i in iv if np.isfinite(i.right)])]
    out=tr(lambda: h.transform(T))
    if isinstance(out,tuple): note("C20 transform exc", False, (kw,out)); continue
    lo,hi=kw["absolute_range"]; ok=out.shape==(len(T),len(iv))
    for i,sq in enumerate(T):
        exp=[sum(1 for v_ in sq if I.left<v_<=I.right) for I in iv]
        if list(out[i])!=exp or out[i].sum()!=sum(1 for v_ in sq if lo<v_<=hi): ok=False
    note("C20 conservation", ok, (kw, [str(i) for i in iv]))
    k=V.KDEVectorizer(bandwidth=0.7, n_components=6).fit(X); o1=k.transform(X); o2=k.transform([rs.permutation(s) for s in X])
    g=k.evaluation_grid_; direct=np.array([[np.mean(np.exp(-0.5*((gg-s)/0.7)**2))/(0.7*np.sqrt(2*np.pi)) for gg in g] for s in X])
    note("C20 kde", np.allclose(o1,o2,rtol=1e-12,atol=1e-15) and np.all(o1>=0) and np.allclose(o1,direct,rtol=1e-9), None)

for k in sorted(stats):
    n,b,info=stats[k]; print("%-50s %4d/%4d %s"%(k,b,n,("FAIL "+str(info)[:400]) if b else "ok"))
