"""Probe prototype: generic estimator harness for C01/C02/C12/C13 (interpreted or JIT)."""
import warnings, sys, copy, time, traceback
warnings.filterwarnings("ignore")
import numpy as np, scipy.sparse as sp
import vectorizers as V
from vectorizers.transformers import *
from sklearn.base import clone
print("USING", V.__file__)
seed=int(sys.argv[1]); N=int(sys.argv[2]); rs=np.random.RandomState(seed)

def tokdocs(n, vocab, unseen=0, minlen=0, maxlen=25):
    return [["w%d"%rs.randint(vocab) if rs.rand()>unseen else "u%d"%rs.randint(3) for _ in range(rs.randint(minlen,maxlen))] for _ in range(n)]
def strings(n, alpha="abc", maxlen=30): return ["".join(rs.choice(list(alpha), size=rs.randint(0,maxlen))) for _ in range(n)]
def numseqs(n, lo=0, hi=10, minlen=1): return [rs.uniform(lo,hi,size=rs.randint(minlen,40)) for _ in range(n)]
def measures(n, npts, density=0.3):
    X=sp.random(n,npts,density=density,random_state=rs.randint(1<<30),format="lil")
    for i in range(n):
        if len(X.rows[i])<2:
            for j in rs.choice(npts,2,replace=False): X[i,j]=rs.rand()+0.1
    return X.tocsr()
def counts(n,m,density=0.3):
    X=sp.random(n,m,density=density,random_state=rs.randint(1<<30),format="csr"); X.data=np.ceil(X.data*5)
    for i in range(n):
        if X[i].nnz==0: X[i,rs.randint(m)]=1
    X=X.tocsc()
    for j in range(m):
        if X[:,j].nnz==0: X[rs.randint(n),j]=1
    return X.tocsr()

def dense(x):
    if sp.issparse(x): return x.toarray()
    if isinstance(x,(list,tuple)) or "List" in type(x).__name__: return [np.asarray(r) for r in x]
    return np.asarray(x)
def same(a,b,tol=1e-8):
    a=dense(a); b=dense(b)
    if isinstance(a,list):
        return len(a)==len(b) and all((np.asarray(x).shape==np.asarray(y).shape) and (np.asarray(x).dtype.kind in "US" and list(x)==list(y) or np.allclose(np.asarray(x,dtype=float),np.asarray(y,dtype=float),rtol=tol,atol=tol)) if not (len(x)==0 and len(y)==0) else True for x,y in zip(a,b))
    return a.shape==b.shape and np.allclose(a,b,rtol=tol,atol=tol,equal_nan=False)
def rows(x):
    if isinstance(x,(list,tuple)) or "List" in type(x).__name__: return list(x)
    return x
def vstack(a,b):
    if sp.issparse(a): return sp.vstack([a,b]).tocsr()
    if isinstance(a,(list,tuple)) or "List" in type(a).__name__: return list(a)+list(b)
    return np.vstack([a,b])
def take(x,idx):
    if isinstance(x,(list,tuple)): return [x[i] for i in idx]
    return x[idx]
def snap(x):
    if sp.issparse(x):
        x2=x; return ("sp",type(x).__name__, x.shape, tuple(np.asarray(getattr(x,a)).tobytes() for a in ("data","indices","indptr") if hasattr(x,a)) if x.format in("csr","csc") else x.toarray().tobytes())
    if isinstance(x,np.ndarray): return ("nd",x.dtype.str,x.shape,x.tobytes())
    if isinstance(x,dict): return ("dict",tuple((repr(k),snap(v)) for k,v in x.items()))
    if isinstance(x,(list,tuple)): return (type(x).__name__,tuple(snap(v) for v in x))
    return repr(x)

cases=[]
def add(name, make, train, test, fitkw=None, trkw=None, rowwise=True, tol=1e-8):
    cases.append(dict(name=name, make=make, train=train, test=test, fitkw=fitkw or (lambda X:{}), trkw=trkw or (lambda X:{}), rowwise=rowwise, tol=tol))

for rep in range(N):
    vocab=rs.randint(3,10); tr=tokdocs(rs.randint(2,7),vocab,minlen=2); te=tokdocs(rs.randint(1,6),vocab,unseen=0.2)+[[]]
    ng=int(rs.choice([1,2,3])); beh=str(rs.choice(["exact","subgrams"]))
    add("Ngram n=%d %s"%(ng,beh), lambda ng=ng,beh=beh: V.NgramVectorizer(ngram_size=ng, ngram_behaviour=beh), tr, te)
    add("Ngram mask", lambda ng=ng: V.NgramVectorizer(ngram_size=min(ng,2), min_occurrences=2, mask_string="[M]"), tr, te)
    add("Skipgram", lambda: V.SkipgramVectorizer(window_radius=int(rs.randint(1,4)) if False else 2, kernel_function=str(rs.choice(["flat","harmonic"])) if False else "flat"), tr, te)
    ss=strings(rs.randint(2,6)); st=strings(rs.randint(1,6),alpha="abcz")+[""]
    mc=rs.choice([None,8,64])
    add("LZ cols=%s"%mc, lambda mc=mc: V.LZCompressionVectorizer(max_columns=mc, random_state=3, max_dict_size=int(rs.choice([4,1<<16]))), ss, st)
    for rt in ("matrix","sequences","tokens"):
        add("BPE "+rt, lambda rt=rt: V.BytePairEncodingVectorizer(max_vocab_size=int(rs.choice([2,5,50])), return_type=rt), [s+"abab" for s in ss], st)
    ns=numseqs(rs.randint(2,6)); nt=numseqs(rs.randint(1,5),lo=-5,hi=15)
    add("Histogram", lambda: V.HistogramVectorizer(n_components=int(rs.randint(2,8)), append_outlier_bins=bool(rs.rand()<0.5)), ns, nt+[np.array([])])
    add("KDE", lambda: V.KDEVectorizer(bandwidth=0.5, n_components=int(rs.randint(2,8))), ns, nt)
    pts=[rs.normal(size=(rs.randint(5,20),2)) for _ in range(4)]
    add("Distribution", lambda: V.DistributionVectorizer(n_components=2, random_state=1), pts, [rs.normal(size=(rs.randint(3,9),2)) for _ in range(3)])
    npts=rs.randint(8,20); dim=3; vec=rs.normal(size=(npts,dim)); Xm=measures(rs.randint(4,8),npts); Xt=measures(rs.randint(2,6),npts)
    for method in ("LOT_exact","LOT_sinkhorn","HeuristicLinearAlgebra"):
        for metric in ("cosine","euclidean"):
            nc=min(Xm.shape[0], dim) if method=="HeuristicLinearAlgebra" else Xm.shape[0]
            add("Wasserstein %s %s"%(method,metric), lambda method=method,metric=metric,nc=nc: V.WassersteinVectorizer(method=method, metric=metric, n_components=nc, reference_size=4, random_state=5, memory_size=str(rs.choice(["1k","2G"]))), Xm, Xt, fitkw=lambda X,vec=vec:{"vectors":vec}, trkw=lambda X,vec=vec:{"vectors":vec})
    add("Sinkhorn", lambda: V.SinkhornVectorizer(n_components=Xm.shape[0], reference_size=4, random_state=5, chunk_size=3), Xm, Xt, fitkw=lambda X,vec=vec:{"vectors":vec}, trkw=lambda X,vec=vec:{"vectors":vec})
    add("ApproxWasserstein", lambda: V.ApproximateWassersteinVectorizer(n_components=min(dim,Xm.shape[0]), random_state=5), Xm, Xt, fitkw=lambda X,vec=vec:{"vectors":vec})
    # lil
    dl=[np.array(r,dtype=float) for r in Xm.tolil().data]; vl=[np.ascontiguousarray(vec[r]) for r in Xm.tolil().rows]
    dt=[np.array(r,dtype=float) for r in Xt.tolil().data]; vt=[np.ascontiguousarray(vec[r]) for r in Xt.tolil().rows]
    for metric in ("cosine","euclidean"):
        add("Wasserstein lil "+metric, lambda metric=metric: V.WassersteinVectorizer(input_method="lil", metric=metric, n_components=len(dl), reference_size=4, random_state=5), dl, dt,
            fitkw=lambda X,vl=vl,vt=vt,dl=dl: {"vectors": vl if len(X)==len(dl) and all(a is b for a,b in zip(X,dl)) else None}, trkw=None)
    C=counts(rs.randint(4,9), rs.randint(5,10)); Ct=counts(rs.randint(2,6), C.shape[1])
    add("InfoWeight", lambda: InformationWeightTransformer(approx_prior=bool(rs.rand()<0.5)), C, Ct)
    add("RowDenoise", lambda: RowDenoisingTransformer(normalize=bool(rs.rand()<0.5)), C, Ct, tol=1e-5)
    add("CountFeatureCompression", lambda: CountFeatureCompressionTransformer(n_components=min(C.shape[0],C.shape[1]-1), random_state=2), C, Ct, tol=1e-6)
    sq=[rs.normal(size=rs.randint(12,30)) for _ in range(3)]
    add("SlidingWindow", lambda: SlidingWindowTransformer(window_width=int(rs.randint(2,8)), window_stride=int(rs.randint(1,4))), sq, [rs.normal(size=rs.randint(12,30)) for _ in range(3)])
    add("SeqDiff", lambda: SequentialDifferenceTransformer(stride=int(rs.randint(1,4))), sq, sq)

stats={}
def note(k,ok,info=None):
    s=stats.setdefault(k,[0,0,[]]); s[0]+=1
    if not ok:
        s[1]+=1
        if len(s[2])<2: s[2].append(info)
for c in cases:
    name=c["name"]
    if name.startswith("Wasserstein lil"): continue   # lil needs paired vectors; handled in a dedicated probe
    try:
        st0=rs.get_state(); e1=c["make"](); rs.set_state(st0); e2=c["make"]()
        tr=c["train"]; te=c["test"]
        s_tr=snap(tr)
        r=e1.fit(copy.deepcopy(tr) if False else tr, **c["fitkw"](tr))
        note("C02 fit-returns-self/"+name.split()[0], r is e1, name)
        ft=e2.fit_transform(tr, **c["fitkw"](tr))
        note("C13 train-input-unchanged/"+name.split()[0], snap(tr)==s_tr, name)
        t=e1.transform(tr, **c["trkw"](tr))
        note("C02 ft==f.t/"+name.split()[0], same(ft,t,c["tol"]), name)
        # C01/C12/C13 on test data
        s_te=snap(te)
        out=e1.transform(te, **c["trkw"](te))
        note("C13 test-input-unchanged/"+name.split()[0], snap(te)==s_te, name)
        n_items = te.shape[0] if hasattr(te,"shape") else len(te)
        n_out = out.shape[0] if hasattr(out,"shape") else len(out)
        note("C01 rows/"+name.split()[0], n_out==n_items, (name,n_out,n_items))
        out2=e1.transform(te, **c["trkw"](te))
        note("C13 repeat/"+name.split()[0], same(out,out2,1e-12), name)
        k=rs.randint(0,n_items+1)
        a=e1.transform(te[:k], **c["trkw"](te[:k])) if k>0 else None; b=e1.transform(te[k:], **c["trkw"](te[k:])) if k<n_items else None
        parts = b if a is None else (a if b is None else vstack(a,b))
        note("C12 split/"+name.split()[0], same(out,parts,c["tol"]), (name,k,n_items))
        p=rs.permutation(n_items); outp=e1.transform(take(te,p) if not hasattr(te,"shape") else te[p], **c["trkw"](te))
        note("C12 perm/"+name.split()[0], same(take(rows(out),p) if isinstance(out,list) else out[p], outp, c["tol"]), name)
    except Exception as ex:
        tb=traceback.extract_tb(sys.exc_info()[2])
        note("EXC/"+name.split()[0]+"/"+type(ex).__name__, False, (name, str(ex)[:100], [(f.name,f.lineno) for f in tb[-2:]]))
for k in sorted(stats):
    n,b,info=stats[k]
    if b: print("%-55s %3d/%3d FAIL  %s"%(k,b,n,str(info)[:300]))
print("ok-keys:", sum(1 for k in stats if stats[k][1]==0), "fail-keys:", sum(1 for k in stats if stats[k][1]))
