import warnings; warnings.filterwarnings("ignore")
import numpy as np
from numpy.lib.stride_tricks import sliding_window_view
from vectorizers.transformers import SlidingWindowTransformer
rs=np.random.RandomState(0); res={}
for rep in range(600):
    L=rs.randint(3,30); x=rs.normal(size=L); w=int(rs.randint(1,L+1)); ln=int(rs.randint(1,w+3))
    pos=rs.choice(w,size=ln,replace=True); smp=np.array(pos) if rs.rand()<0.5 else [int(p) for p in pos]
    cat=("len2-list" if (isinstance(smp,list) and ln==2) else ("len<w" if ln<w else ("len==w" if ln==w else "len>w")))+("/nd" if isinstance(smp,np.ndarray) else "/list")
    try:
        out=SlidingWindowTransformer(window_width=w, window_sample=smp).fit([x]).transform([x])[0]
        exp=sliding_window_view(x,w)[:,pos]; ok=out.shape==exp.shape and np.allclose(out,exp)
    except Exception as e: ok=("EXC",type(e).__name__)
    r=res.setdefault(cat,{}); r[str(ok)]=r.get(str(ok),0)+1
for k,v in sorted(res.items()): print(k,v)
