import os, sys, warnings, time
warnings.filterwarnings("ignore")
import numpy as np
import vectorizers as V
which=sys.argv[1]
rs=np.random.RandomState(0)
def tr(f):
    try: return f()
    except BaseException as e: return ("EXC", type(e).__name__, str(e)[:200])
if which=="multi_tiny":
    docs=[[ [str(rs.randint(12)) for _ in range(rs.randint(1,4))] for _ in range(8)] for _ in range(6)]
    ref=V.MultiSetCooccurrenceVectorizer(window_radii=2, normalize_windows=False).fit_transform(docs)
    v=V.MultiSetCooccurrenceVectorizer(window_radii=2, normalize_windows=False, coo_initial_memory="1k")
    r=tr(lambda: v.fit_transform(docs))
    print("sizes", getattr(v,"_coo_sizes",None), "ref nnz", ref.nnz, ref.sum())
    print(r if isinstance(r,tuple) else ("max diff", abs(r-ref).max(), r.sum()))
if which=="token_1k_threads":
    docs=[[str(rs.randint(12)) for _ in range(30)] for _ in range(20)]
    ref=V.TokenCooccurrenceVectorizer(window_radii=5, normalize_windows=False).fit_transform(docs)
    for nt in (1,2,16):
        v=V.TokenCooccurrenceVectorizer(window_radii=5, normalize_windows=False, coo_initial_memory="1k", n_threads=nt)
        r=tr(lambda: v.fit_transform(docs))
        print(nt, "sizes", getattr(v,"_coo_sizes",None), r if isinstance(r,tuple) else ("max diff", abs(r-ref).max()))
if which=="em_eps":
    docs=[[str(rs.randint(8)) for _ in range(40)] for _ in range(10)]
    for eps in (0.0, 0.05, 0.2):
        v=V.TokenCooccurrenceVectorizer(window_radii=3, n_iter=2, epsilon=eps)
        r=tr(lambda: v.fit_transform(docs))
        print(eps, r if isinstance(r,tuple) else ("nnz", r.nnz, "colsum max", r.sum(axis=0).max()))
if which=="dict_beyond_freq":
    td={"a":0,"b":1,"c":2,"d":3,"e":4}
    v=V.TokenCooccurrenceVectorizer(token_dictionary=td, window_radii=2, normalize_windows=False)
    v.fit([["a","b","a","b"]]); print("freq len", len(v._token_frequencies_), v._window_len_array.shape)
    print(tr(lambda: v.transform([["a","e","d","e","b"]]).toarray()))
