import pickle, sys, numpy as np, collections
a=pickle.load(open(sys.argv[1],"rb")); b=pickle.load(open(sys.argv[2],"rb")); worst=collections.defaultdict(float); exc=[]
for k in a:
    fam=k.rstrip("0123456789"); x,y=a[k],b[k]
    if isinstance(x,tuple) or isinstance(y,tuple):
        if (isinstance(x,tuple) and isinstance(y,tuple) and x[1]==y[1]): continue
        exc.append((k,x if isinstance(x,tuple) else "ok",y if isinstance(y,tuple) else "ok")); continue
    if isinstance(x,list):
        for p,q in zip(x,y):
            if p.shape!=q.shape: exc.append((k,"shape",p.shape,q.shape)); break
            if p.size: worst[fam]=max(worst[fam], float(np.max(np.abs(p.astype(float)-q.astype(float))/(1e-7+1e-5*np.abs(q.astype(float))))))
    else:
        if x.shape!=y.shape: exc.append((k,"shape",x.shape,y.shape)); continue
        if x.size: worst[fam]=max(worst[fam], float(np.max(np.abs(x.astype(float)-y.astype(float))/(1e-7+1e-5*np.abs(y.astype(float))))))
print("worst |a-b|/(1e-7+1e-5|b|) per family:", {k:float("%.3g"%v) for k,v in sorted(worst.items())}); print("exception mismatches:", exc[:8])
