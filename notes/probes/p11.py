import warnings, sys, time
warnings.filterwarnings("ignore")
import numpy as np
sys.path.insert(0,"/tmp/probe")
from ref_cooc import *
import vectorizers as V; print("USING", V.__file__)
seed=int(sys.argv[1]); rs=np.random.RandomState(seed)
t0=time.time(); ncase=0; worst_ratio=0; worst_em=0; amb_skips=0; viol=0
shapes=[dict(orients=["directional"],kernel=["flat"]),
        dict(orients=["after","before"],kernel=["harmonic","harmonic"]),
        dict(orients=["directional","after"],kernel=["geometric","geometric"])]
for sh in shapes:
  for rep in range(int(sys.argv[2])):
    nw=len(sh["orients"])
    vocab=rs.randint(1,9); ndoc=rs.randint(1,6)
    docs=[[ "t%d"%rs.randint(vocab) for _ in range(rs.choice([0,1,2,3,5,8,20,40]))] for _ in range(ndoc)]
    if sum(len(d) for d in docs)==0: continue
    radii=[int(rs.randint(0,6)) for _ in range(nw)]
    if all(r==0 for r in radii): radii[0]=1
    offs=[int(rs.choice([0,0,1,2])) for _ in range(nw)]; kn=[bool(rs.rand()<0.3) for _ in range(nw)]; pw=[float(rs.choice([0.5,0.9])) for _ in range(nw)]
    mix=[float(rs.choice([1.0,0.5,2.0])) for _ in range(nw)]; nwn=bool(rs.rand()<0.5)
    n_iter=int(rs.choice([0,0,1,2,3])); eps=float(rs.choice([0,0,1e-3,0.05,0.2]))
    kargs=[]
    for i in range(nw):
        d={"normalize":kn[i],"offset":offs[i]}
        if sh["kernel"][i]=="geometric": d["power"]=pw[i]
        kargs.append(d)
    v=V.TokenCooccurrenceVectorizer(window_radii=radii, window_orientations=sh["orients"], kernel_functions=sh["kernel"], window_functions=["fixed"]*nw,
        kernel_args=kargs, mix_weights=mix, normalize_windows=nwn, n_iter=n_iter, epsilon=eps)
    try: m=v.fit_transform(docs).toarray().astype(float)
    except Exception as e:
        print("EXC", type(e).__name__, str(e)[:100], dict(radii=radii,n_iter=n_iter,eps=eps,docs=docs if len(str(docs))<300 else "...")); viol+=1; continue
    td=v.token_label_dictionary_; n=len(td); seqs=[[td[t] for t in d] for d in docs]
    wins=expand(sh["orients"])
    P=dict(kernel=sh["kernel"],power=pw,offset=offs,knorm=kn,mix=mix,mask_index=None,normalize_windows=nwn)
    radw=[np.full(n+1, radii[i]) for (i,side) in wins]
    M,CNT=cooc(seqs,n,radw,wins,P)
    if n_iter==0 and eps==0:
        tol=2*(CNT+2)*2.0**-24*M+1e-12
        ratio=(np.abs(m-M)/tol).max(); worst_ratio=max(worst_ratio,ratio)
        if ratio>1: viol+=1; print("C03 VIOL", ratio, dict(radii=radii,offs=offs,kn=kn,mix=mix,nwn=nwn,orients=sh["orients"],kernel=sh["kernel"]), docs if len(str(docs))<400 else "...")
    else:
        R,amb=em(seqs,n,radw,wins,P,M,n_iter,eps)
        if amb: amb_skips+=1; continue
        err=np.abs(m-R); rel=(err/(2e-4*(n_iter+1)*np.abs(R)+1e-6)).max(); worst_em=max(worst_em,rel)
        if rel>1: viol+=1; print("C11 VIOL", rel, err.max(), dict(n_iter=n_iter,eps=eps,radii=radii,offs=offs,kn=kn,mix=mix,orients=sh["orients"],kernel=sh["kernel"]), docs if len(str(docs))<300 else "...")
    ncase+=1
print("seed",seed,"cases",ncase,"viol",viol,"worst T32 ratio %.3g"%worst_ratio,"worst EM ratio %.3g"%worst_em,"amb",amb_skips,"t=%.0fs"%(time.time()-t0))
