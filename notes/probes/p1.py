import os, time, sys
t0=time.time()
import numpy as np
import vectorizers
from vectorizers import TokenCooccurrenceVectorizer, BytePairEncodingVectorizer
print("import", time.time()-t0)
docs=[["a","b","c","a","b"],["b","c","d","a"],[],["d"]]
t0=time.time()
v=TokenCooccurrenceVectorizer(window_radii=2, normalize_windows=False)
m=v.fit_transform(docs)
print("fit", time.time()-t0, m.shape, m.toarray().sum())
t0=time.time()
m2=v.transform(docs)
print("transform", time.time()-t0, abs(m-m2).sum())
t0=time.time()
try:
    b=BytePairEncodingVectorizer(return_type="sequences", max_vocab_size=5)
    r=b.fit_transform(["abababab","a","", "ab", "abab"])
    print("bpe", time.time()-t0, [list(x) for x in r], b.tokens_, b.code_list_)
    print([list(x) for x in b.transform(["a","","abab","zz"])])
except BaseException as e:
    print("BPE EXC", type(e), e)
