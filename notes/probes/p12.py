import warnings, time, sys
warnings.filterwarnings("ignore")
import numpy as np, scipy.sparse as sp
import vectorizers as V; print("USING", V.__file__)
rs=np.random.RandomState(0)
def vec_ref(seqs, n, r):
    M=np.zeros((n,2*n))
    for s in seqs:
        s=np.asarray(s)
        for d in range(1,r+1):
            if len(s)>d:
                a=s[:-d]; b=s[d:]
                np.add.at(M,(a,n+b),1.0); np.add.at(M,(b,a),1.0)
    return M
for (ntok,vocab,mem) in ((200_000,12,"0.5 GiB"),(200_000,12,"64k"),(200_000,1500,"2M"),(200_000,1500,"0.5 GiB")):
    docs=[[int(x) for x in rs.randint(vocab,size=rs.randint(50,400))] for _ in range(ntok//225)]
    t0=time.time()
    v=V.TokenCooccurrenceVectorizer(window_radii=5, normalize_windows=False, coo_initial_memory=mem)
    m=v.fit_transform(docs); t1=time.time()-t0
    td=v.token_label_dictionary_; seqs=[[td[t] for t in d] for d in docs]
    t0=time.time(); M=vec_ref(seqs,len(td),5); t2=time.time()-t0
    print(dict(tokens=sum(map(len,docs)),vocab=len(td),mem=mem,coo_sizes=v._coo_sizes.tolist(),events=int(M.sum()),cells=int((M>0).sum())), "fit %.1fs ref %.1fs"%(t1,t2), "max|diff|", np.abs(m.toarray()-M).max(), flush=True)
