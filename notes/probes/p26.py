import warnings, sys, time
warnings.filterwarnings("ignore")
import numpy as np
from vectorizers.preprocessing import construct_token_dictionary_and_frequency, prune_token_dictionary
import vectorizers; print("USING", vectorizers.__file__)
def case(c, T):
    # tokens: 'a' x c, 'b' x (c-1), rest 'z'
    seq=np.concatenate([np.zeros(c,dtype=np.int64), np.ones(c-1,dtype=np.int64), np.full(T-2*c+1,2,dtype=np.int64)]).tolist()
    t0=time.time(); d,f,n=construct_token_dictionary_and_frequency(seq)
    nd,_=prune_token_dictionary(dict(d),f,min_occurrences=c,total_tokens=n,min_frequency=None,max_frequency=None)
    nd2,_=prune_token_dictionary(dict(d),f,max_occurrences=c-1,total_tokens=n,min_frequency=None,max_frequency=None)
    ok = (0 in nd) and (1 not in nd) and (1 in nd2) and (0 not in nd2)
    print("c=%d T=%d -> min_occ=c keeps a:%s drops b:%s | max_occ=c-1 keeps b:%s drops a:%s | %s  (%.1fs)"%(c,T,0 in nd,1 not in nd,1 in nd2,0 not in nd2,"OK" if ok else "VIOLATION",time.time()-t0),flush=True)
for c,T in ((1000,3000),(3000,9000),(50000,150000),(500000,1500000),(3000000,9000001)):
    case(c,T)
