import os, sys, warnings, tempfile, time
warnings.filterwarnings("ignore")
import numpy as np, scipy.sparse as sp
import vectorizers as V
def sect(n): print("\n###", n, flush=True)
def tr(f):
    try: return f()
    except BaseException as e: return ("EXC", type(e).__name__, str(e)[:200])
rs=np.random.RandomState(1)
sect("7 Wasserstein euclidean fit_transform vs transform")
X=sp.random(12,30,density=0.3,random_state=1,format="csr"); vec=rs.normal(size=(30,4))
for metric in ("cosine","euclidean"):
    for im in ("spmatrix",):
        t0=time.time()
        w=V.WassersteinVectorizer(n_components=5, metric=metric, random_state=3, reference_size=4)
        ft=w.fit_transform(X, vectors=vec); t=w.transform(X, vectors=vec)
        print(metric, im, "max|ft-t|", np.abs(ft-t).max(), "scale", np.abs(ft).max(), "t=%.1f"%(time.time()-t0))
sect("16 lil in-place normalisation + 17 temp dirs")
dists=[np.array(r, dtype=np.float64)*3 for r in X.tolil().data]; vecs=[np.ascontiguousarray(vec[r]) for r in X.tolil().rows]
keep=[d.copy() for d in dists]
td=tempfile.mkdtemp(dir="/tmp/probe")
w=V.WassersteinVectorizer(input_method="lil", n_components=5, random_state=3, reference_size=4, cachedir=td, memory_size="1k")
r=tr(lambda: w.fit(dists, vectors=vecs))
print("fit:", type(r).__name__ if not isinstance(r,tuple) else r)
print("dists mutated:", any(not np.array_equal(a,b) for a,b in zip(dists,keep)), dists[0][:3], keep[0][:3])
print("cachedir leftovers:", os.listdir(td))
w2=V.WassersteinVectorizer(n_components=5, random_state=3, reference_size=4, cachedir=td, memory_size="1k")
w2.fit(X, vectors=vec); print("after spmatrix multi-block fit leftovers:", os.listdir(td))
sect("11 timed large timestamps")
base=[[("a",0.0),("b",1.0),("c",3.0),("a",4.0),("b",4.5)],[("c",0.0),("a",2.0),("b",2.5)]]
def shift(d,s): return [[(t,ts+s) for t,ts in doc] for doc in d]
for s in (0.0, 1.0e6, 1.7e9):
    v=V.TimedTokenCooccurrenceVectorizer(window_radii=2, kernel_functions="geometric", normalize_windows=False, window_orientations="after")
    m=tr(lambda: v.fit_transform(shift(base,s)).toarray())
    print("shift",s, "delta_mean", getattr(v,"delta_mean_",None)); print(np.round(m,4) if not isinstance(m,tuple) else m)
sect("14 single-token corpus")
v=V.TokenCooccurrenceVectorizer(window_radii=2, normalize_windows=False, window_orientations="after")
print(tr(lambda: v.fit_transform([["a","a","a","a"]]).toarray()))
