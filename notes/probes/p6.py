import os, sys, warnings, time
warnings.filterwarnings("ignore")
import numpy as np
import vectorizers as V
rs=np.random.RandomState(0)
docs=[[str(rs.randint(12)) for _ in range(rs.randint(0,30))] for _ in range(12)]
cfgs=[dict(window_radii=2),
      dict(window_radii=[2,3], window_orientations=["before","directional"], kernel_functions=["harmonic","harmonic"], window_functions=["fixed","fixed"], mix_weights=[1.0,0.5], normalize_windows=False),
      dict(window_radii=3, kernel_functions="geometric", mask_string="M", nullify_mask=True, min_occurrences=3),
      dict(window_radii=3, kernel_functions="geometric", kernel_args={"normalize":True,"offset":1,"power":0.5}),
      dict(window_radii=3, window_functions="variable", n_iter=1),
      dict(window_radii=2), ]
for c in cfgs:
    t0=time.time(); v=V.TokenCooccurrenceVectorizer(**c); m=v.fit_transform(docs); print("%.2fs"%(time.time()-t0), c, m.shape, flush=True)
t0=time.time()
for k in range(50):
    V.TokenCooccurrenceVectorizer(window_radii=2).fit_transform(docs)
print("50 fits %.2fs"%(time.time()-t0))
