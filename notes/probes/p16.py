import warnings, sys, itertools, collections
warnings.filterwarnings("ignore")
import vectorizers as V
from vectorizers import BytePairEncodingVectorizer as B
strings=[""]+["".join(p) for L in range(1,4) for p in itertools.product("ab",repeat=L)]
msgs=collections.defaultdict(list)
for corp in [[s] for s in strings]+[[s,t] for s in strings for t in strings]:
    try: B(max_vocab_size=50, return_type="sequences").fit_transform(corp)
    except Exception as e: msgs[type(e).__name__+": "+str(e)[:70]].append(corp)
for k,v in msgs.items(): print(len(v), k, v[:6])
b=B(max_vocab_size=50, return_type="sequences"); print(b.fit_transform(["abab","ab"]), b.tokens_, b.code_list_)
