import os, sys, warnings, time
warnings.filterwarnings("ignore")
import numpy as np, scipy.sparse as sp
import vectorizers as V
rs=np.random.RandomState(5)
n_pts=40; dim=5
vec=rs.normal(size=(n_pts,dim))
X=sp.random(24,n_pts,density=0.25,random_state=2,format="csr"); X.data=rs.rand(X.nnz)+0.05
# make sure each row nonempty
X=X.tolil()
for i in range(X.shape[0]):
    if len(X.rows[i])<2: X[i,rs.randint(n_pts)]=0.5; X[i,rs.randint(n_pts)]=0.7
X=X.tocsr()
def report(name, a, b):
    print("%-45s max|diff|=%.3e  scale=%.3e"%(name, np.abs(a-b).max(), np.abs(a).max()), flush=True)
for cls,kw in ((V.WassersteinVectorizer,dict(method="LOT_exact")),(V.WassersteinVectorizer,dict(method="LOT_sinkhorn", sinkhorn_chunk_size=5)),(V.SinkhornVectorizer,dict(chunk_size=5)),(V.WassersteinVectorizer,dict(method="HeuristicLinearAlgebra", n_components=4)),):
  for metric in ("cosine","euclidean"):
    kw2=dict(kw); kw2.setdefault("n_components",8)
    if "Heuristic" in str(kw.get("method")) and metric=="euclidean": continue
    w=cls(metric=metric, random_state=7, reference_size=6, **kw2) if cls is not V.SinkhornVectorizer else cls(metric=metric, random_state=7, reference_size=6, n_components=8, **kw)
    t0=time.time(); w.fit(X, vectors=vec); name=cls.__name__+str(kw.get("method",""))+"/"+metric
    base=w.transform(X, vectors=vec)
    print("fit+transform %.1fs"%(time.time()-t0))
    # batch split
    parts=np.vstack([w.transform(X[:7], vectors=vec), w.transform(X[7:], vectors=vec)])
    report(name+" split-batch", base, parts)
    # permute rows
    p=rs.permutation(X.shape[0]); report(name+" row-perm", base[p], w.transform(X[p], vectors=vec))
    # scale rows
    D=sp.diags(rs.rand(X.shape[0])*10+0.1); report(name+" row-scale", base, w.transform((D@X).tocsr(), vectors=vec))
    # permute support
    q=rs.permutation(n_pts); report(name+" support-perm", base, w.transform(X[:,q].tocsr(), vectors=vec[q]))
    # pad zero-weight support points
    Xp=sp.hstack([X, sp.csr_matrix((X.shape[0],6))]).tocsr(); vp=np.vstack([vec, rs.normal(size=(6,dim))]); report(name+" zero-pad", base, w.transform(Xp, vectors=vp))
    # split support point 0 into two duplicates with shared mass
    Xd=X.toarray(); col=Xd[:,0].copy(); Xd[:,0]=col*0.3; Xs=sp.csr_matrix(np.hstack([Xd, (col*0.7)[:,None]])); vs=np.vstack([vec, vec[:1]]); report(name+" split-dup", base, w.transform(Xs, vectors=vs))
    # memory size
    old=w.memory_size; w.memory_size="1k"; report(name+" memory 1k", base, w.transform(X, vectors=vec)); w.memory_size=old
