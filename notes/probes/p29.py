"""Probe: same deterministic cases in JIT / BC / PY; dump results for cross-mode comparison (C10 tolerance calibration)."""
import warnings, sys, pickle, os
warnings.filterwarnings("ignore")
import numpy as np, scipy.sparse as sp
import vectorizers as V, vectorizers.distances as D
from vectorizers.transformers import *
out=sys.argv[1]; rs=np.random.RandomState(7); res={}
def put(k,f):
    try:
        r=f()
        if sp.issparse(r): r=r.toarray()
        if isinstance(r,(list,tuple)) or "List" in type(r).__name__: r=[np.asarray(x) for x in r]
        res[k]=r
    except Exception as e: res[k]=("EXC",type(e).__name__,str(e)[:80])
for i in range(12):
    vocab=rs.randint(2,9); docs=[["t%d"%rs.randint(vocab) for _ in range(rs.randint(0,30))] for _ in range(rs.randint(1,6))]
    if len(set(t for d in docs for t in d))<2: docs.append(["t0","t1","t0"])
    kw=dict(window_radii=int(rs.randint(1,5)), kernel_functions=str(rs.choice(["flat","geometric"])), normalize_windows=bool(rs.rand()<0.5), n_iter=int(rs.choice([0,1,2])), epsilon=float(rs.choice([0,0.02])), window_functions=str(rs.choice(["fixed","variable"])))
    put("token%d"%i, lambda: V.TokenCooccurrenceVectorizer(**kw).fit_transform(docs))
    kw2=dict(kw); kw2["window_functions"]="fixed"
    put("timed%d"%i, lambda: V.TimedTokenCooccurrenceVectorizer(**kw2).fit_transform([[(t,0.37*j+0.01*j*j) for j,t in enumerate(d)] for d in docs]))
    put("multi%d"%i, lambda: V.MultiSetCooccurrenceVectorizer(**kw2).fit_transform([[d[j:j+2] for j in range(0,len(d),2)] for d in docs if d]))
    put("ngram%d"%i, lambda: V.NgramCooccurrenceVectorizer(ngram_size=2, **{**kw, "kernel_functions":"harmonic"}).fit_transform(docs))
    put("skip%d"%i, lambda: V.SkipgramVectorizer(window_radius=2, kernel_function="harmonic").fit_transform(docs))
    S=["".join(rs.choice(list("abcd"), size=rs.randint(0,40))) for _ in range(5)]+["abababab"]
    put("bpe%d"%i, lambda: V.BytePairEncodingVectorizer(max_vocab_size=6, return_type="sequences").fit(S).transform(S+["", "a", "zzz"]))
    put("lz%d"%i, lambda: V.LZCompressionVectorizer(max_columns=64, random_state=1).fit_transform(S))
    n=rs.randint(1,40); x=rs.rand(n)*(rs.rand(n)<0.7)+1e-3*(rs.rand(n)<0.1); y=rs.rand(n)*(rs.rand(n)<0.7); x[0]+=0.1; y[-1]+=0.1
    for name in ("hellinger","kantorovich1d","total_variation","jensen_shannon_divergence","symmetric_kl_divergence"):
        put("%s%d"%(name,i), lambda: np.array(getattr(D,name)(x.copy(),y.copy())))
    ix=np.nonzero(x)[0].astype(np.int32); iy=np.nonzero(y)[0].astype(np.int32)
    for name in ("sparse_hellinger","sparse_total_variation","sparse_jensen_shannon_divergence"):
        put("%s%d"%(name,i), lambda: np.array(getattr(D,name)(ix,x[ix].astype(np.float32),iy,y[iy].astype(np.float32))))
    C=sp.csr_matrix(np.floor(rs.rand(6,5)*4*(rs.rand(6,5)<0.6))+np.eye(6,5))
    put("iw%d"%i, lambda: InformationWeightTransformer(approx_prior=False).fit(C).information_weights_)
    put("rd%d"%i, lambda: RowDenoisingTransformer().fit_transform(C))
    sq=[rs.normal(size=rs.randint(8,20))]
    put("sw%d"%i, lambda: SlidingWindowTransformer(window_width=4, window_stride=2, kernels=["average"] if i%2 else None).fit(sq).transform(sq))
    npts=12; vec=rs.normal(size=(npts,3)); X=sp.random(6,npts,density=0.4,random_state=int(rs.randint(1<<30)),format="csr")+sp.csr_matrix(np.eye(6,npts))
    put("wass%d"%i, lambda: V.WassersteinVectorizer(n_components=4, reference_size=3, random_state=2, metric=str(["cosine","euclidean"][i%2])).fit_transform(sp.csr_matrix(X), vectors=vec))
    put("sink%d"%i, lambda: V.SinkhornVectorizer(n_components=4, reference_size=3, random_state=2).fit_transform(sp.csr_matrix(X), vectors=vec))
pickle.dump(res, open(out,"wb")); print("wrote", out, len(res), "results;", sum(1 for v in res.values() if isinstance(v,tuple)), "exceptions")
