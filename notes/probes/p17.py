import warnings, sys, traceback
warnings.filterwarnings("ignore")
import numpy as np
import vectorizers as V; print("USING", V.__file__)
rs=np.random.RandomState(0)
docs=[[str(rs.randint(12)) for _ in range(30)] for _ in range(20)]
for size in (12, 6, 3, 2, 1):
    v=V.TokenCooccurrenceVectorizer(window_radii=5, normalize_windows=False, coo_initial_memory="1k")
    orig=v._set_coo_sizes
    def patched(ts, v=v, size=size): v._coo_sizes=np.array([size,size],dtype=np.int64)
    v._set_coo_sizes=patched
    try:
        m=v.fit_transform(docs); print(size, "ok sum", m.sum())
    except Exception as e:
        tb=traceback.extract_tb(sys.exc_info()[2]); print(size, "EXC", type(e).__name__, e, [(f.name,f.lineno) for f in tb[-3:]])
