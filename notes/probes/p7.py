import os, sys, warnings
warnings.filterwarnings("ignore")
import numpy as np, scipy.sparse as sp
import vectorizers as V
def sect(n): print("\n###", n, flush=True)
def tr(f):
    try: return f()
    except BaseException as e: return ("EXC", type(e).__name__, str(e)[:200])
sect("a Ngram subgrams")
n=V.NgramVectorizer(ngram_size=2, ngram_behaviour="subgrams")
m=n.fit_transform([["a","b","a"],["b","b"]]); print(n.column_label_dictionary_); print(m.toarray())
sect("b Skipgram fixed dict with unused tail tokens")
s=V.SkipgramVectorizer(window_radius=1, token_dictionary={"a":0,"b":1,"c":2,"d":3})
m=tr(lambda: s.fit_transform([["a","b","a","b"]])); print(getattr(s,"column_label_dictionary_",None)); print(m.toarray() if not isinstance(m,tuple) else m)
sect("c multiset offset")
docs=[[["a","b"],["c"],["d","e","f"]]]
for off in (0,1):
    v=V.MultiSetCooccurrenceVectorizer(window_radii=2, normalize_windows=False, window_orientations="after", kernel_args={"offset":off})
    m=tr(lambda: v.fit_transform(docs)); print("offset",off, v.token_label_dictionary_); print(m.toarray() if not isinstance(m,tuple) else m)
sect("d Histogram edges")
X=[np.array([1.,2.,3.,4.,5.]), np.array([1.,1.,5.,5.,2.5])]
for kw in (dict(), dict(append_outlier_bins=True), dict(absolute_range=(0,10)), dict(absolute_range=(0,10), append_outlier_bins=True), dict(strategy="quantile")):
    h=V.HistogramVectorizer(n_components=4, **kw).fit(X)
    out=tr(lambda: h.transform(X+[np.array([-3., 0., 0.5, 1., 5., 7., 10., 11.])]))
    print(kw, list(h.bin_intervals_)); print(out)
sect("h n_threads > n_docs")
docs=[["a","b","c","a"],["b","a"]]
ref=V.TokenCooccurrenceVectorizer(window_radii=2, normalize_windows=False).fit_transform(docs).toarray()
for nt in (2,3,8):
    r=tr(lambda: V.TokenCooccurrenceVectorizer(window_radii=2, normalize_windows=False, n_threads=nt).fit_transform(docs).toarray())
    print(nt, r if isinstance(r,tuple) else np.abs(r-ref).max())
