import numba, numpy as np
@numba.njit(parallel=True)
def f(a, n):
    s = np.zeros(n)
    for i in numba.prange(n):
        s[i] = a[i+1]
    return s
@numba.njit(nogil=True)
def g(a):
    for i in range(0):
        pass
    return a[i+1]
try: print("par", f(np.arange(4.), 4))
except Exception as e: print("par EXC", type(e).__name__, e)
try: print("unbound", g(np.arange(1.)))
except Exception as e: print("unbound EXC", type(e).__name__, e)
