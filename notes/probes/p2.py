import os, sys, warnings, tempfile
warnings.filterwarnings("ignore")
import numpy as np, scipy.sparse as sp
import vectorizers as V
from vectorizers.transformers import *
import vectorizers.distances as D
def sect(n): print("\n###", n)
def tr(f):
    try: return f()
    except BaseException as e: return ("EXC", type(e).__name__, str(e)[:150])

sect("1 EdgeList transform shape")
e=V.EdgeListVectorizer().fit([("r1","c1",1),("r2","c2",2),("r3","c3",1)])
print(e._train_matrix.shape, tr(lambda: e.transform([("r1","c1",5)]).shape))

sect("2 Skipgram shapes")
s=V.SkipgramVectorizer(window_radius=2)
X=[["a","b","c"],["c","b","a","b"],[],["a"]]
print(tr(lambda: s.fit_transform(X).shape), len(s.column_label_dictionary_))
print(tr(lambda: s.transform([["a","b"]]).shape))
print(tr(lambda: s.transform([["c","b","a","b"],[]]).shape))

sect("3 LZ transform unseen phrases")
lz=V.LZCompressionVectorizer(max_columns=None)
m=lz.fit_transform(["abababab","abcabc"])
print(m.shape, m.sum(axis=1).T)
print(tr(lambda: lz.transform(["abababab","xyzxyz","abab"]).toarray()))

sect("4 BPE matrix unseen chars")
b=V.BytePairEncodingVectorizer(max_vocab_size=3)
m=b.fit_transform(["abababab","abcabcab"])
print(m.shape, b.column_label_dictionary_)
print(tr(lambda: b.transform(["ababz"]).shape))
print(tr(lambda: b.transform(["aaaa"]).shape))

sect("5 Ngram + transform")
a=V.NgramVectorizer().fit([["x","y"],["y","z"]]); c=V.NgramVectorizer().fit([["z","w"]])
j=a+c
print(j.column_label_dictionary_, tr(lambda: j.transform([["x","w","z"]]).toarray()))

sect("6 DistributionVectorizer.fit return")
pts=[np.random.RandomState(i).normal(size=(30,2)) for i in range(4)]
print(tr(lambda: V.DistributionVectorizer(n_components=2, random_state=0).fit(pts)))

sect("8 hellinger proportional")
rs=np.random.RandomState(0); bad=0
for k in range(2000):
    x=rs.rand(rs.randint(1,20)); y=x*rs.rand()*10
    h=D.hellinger(x,y)
    if not np.isfinite(h): bad+=1
print("nan count", bad, "of 2000")

sect("9 sparse_sum indices")
i1=np.array([5,9],dtype=np.int32); d1=np.array([1,2],dtype=np.float32)
i2=np.array([5],dtype=np.int32); d2=np.array([3],dtype=np.float32)
print(D.sparse_sum(i1,d1,i2,d2))

sect("10 sliding windows int sample / diff stride")
seq=[np.arange(20.)]
print(tr(lambda: SlidingWindowTransformer(window_width=6, window_sample=2).fit(seq).transform(seq)[0].shape))
print(tr(lambda: SlidingWindowTransformer(window_width=6, window_sample=(0,2)).fit(seq).transform(seq)[0][:2]))
print(tr(lambda: SlidingWindowTransformer(window_width=3, window_sample=[2,1,0]).fit(seq).transform(seq)[0][:2]))
for st in (1,2,3):
    print(st, tr(lambda: SequentialDifferenceTransformer(stride=st).fit(seq).transform(seq)[0].T))

sect("15 token_dictionary mutation with masking")
td={"a":0,"b":1}
v=V.TokenCooccurrenceVectorizer(token_dictionary=td, mask_string="MASK", window_radii=1)
v.fit([["a","b","c","a"]]); print("user dict after fit:", td, "fitted:", v.token_label_dictionary_, v.token_label_dictionary_ is td)

sect("18 caller matrix mutation")
M=sp.csr_matrix(np.array([[1,0,2],[0,3,0.]])); M.data[0]=0
n0=M.nnz; RowDenoisingTransformer().fit(M); print("rowdenoise nnz", n0, "->", M.nnz)
C=sp.csc_matrix((np.array([1.,2,3]), np.array([1,0,1]), np.array([0,2,3])), shape=(2,2))
before=C.indices.copy(); InformationWeightTransformer().fit(C); print("infoweight indices", before, "->", C.indices)

sect("19 Ngram mask fit_transform vs transform")
X=[["a","b","a","c","a"],["a","a","b"]]
n=V.NgramVectorizer(ngram_size=2, min_occurrences=2, mask_string="[M]")
ft=n.fit_transform(X); t=n.transform(X)
print(n.column_label_dictionary_); print(ft.toarray()); print(t.toarray())
