"""Throw-away probe: loop reference for TokenCooccurrenceVectorizer (+EM) to calibrate tolerances."""
import numpy as np
def kernel_weight(kind, d, power=0.9):
    if kind=="flat": return 1.0
    if kind=="harmonic": return 1.0/d
    if kind=="geometric": return power**d
def expand(orients):
    out=[]
    for i,o in enumerate(orients):
        if o=="directional": out += [(i,"before"),(i,"after")]
        else: out.append((i,o))
    return out
def windows_of(seq, p, radii_per_win, wins):
    res=[]
    L=len(seq)
    for (i,side),R in zip(wins, radii_per_win):
        r=int(R[seq[p]])
        if side=="after": pos=[q for q in range(p+1, min(p+r, L-1)+1)]
        else: pos=[q for q in range(p-1, max(p-r,0)-1, -1)]
        res.append(pos)
    return res
def weights(seq, p, poss, wins, P):
    allw=[]
    for (i,side),pos in zip(wins,poss):
        w=[]
        for d,q in enumerate(pos, start=1):
            x=kernel_weight(P["kernel"][i], d, P["power"][i])
            if P["mask_index"] is not None and seq[q]==P["mask_index"]: x=0.0
            if d<=P["offset"][i]: x=0.0
            w.append(x)
        w=np.array(w,dtype=float)
        if P["knorm"][i] and w.sum()>0: w=w/w.sum()
        allw.append(P["mix"][i]*w)
    return allw
def cooc(seqs, n, radii_per_win, wins, P):
    M=np.zeros((n, n*len(wins))); CNT=np.zeros_like(M)
    for seq in seqs:
        for p in range(len(seq)):
            poss=windows_of(seq,p,radii_per_win,wins); W=weights(seq,p,poss,wins,P)
            tot=sum(w.sum() for w in W) if P["normalize_windows"] else 0
            if tot<=0: tot=1
            for b,(pos,w) in enumerate(zip(poss,W)):
                for q,x in zip(pos,w):
                    if x/tot>0:
                        M[seq[p], b*n+seq[q]]+=x/tot; CNT[seq[p], b*n+seq[q]]+=1
    return M,CNT
def em(seqs, n, radii_per_win, wins, P, M, n_iter, eps):
    def norm_thr(M):
        cs=M.sum(0); cs[cs==0]=1; M=M/cs
        amb = np.any((np.abs(M-eps) < 1e-4*max(eps,1e-12)) & (M>0)) if eps>0 else False
        M=np.where(M<eps,0.0,M); return M,amb
    amb=False
    if n_iter>0 or eps>0:
        M,a=norm_thr(M); amb|=a
    for it in range(n_iter):
        post=np.zeros_like(M)
        for seq in seqs:
            for p in range(len(seq)):
                poss=windows_of(seq,p,radii_per_win,wins); W=weights(seq,p,poss,wins,P)
                cells=[];vals=[]
                for b,(pos,w) in enumerate(zip(poss,W)):
                    for q,x in zip(pos,w):
                        if x>0:
                            cells.append((seq[p], b*n+seq[q])); vals.append(x*M[seq[p], b*n+seq[q]])
                s=sum(vals)
                if s>0:
                    for c,v in zip(cells,vals): post[c]+=v/s
        M,a=norm_thr(post); amb|=a
    return M,amb
