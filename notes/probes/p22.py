"""Probe prototype: CooArray shadow-model monitor in interpreted mode with lowered merge threshold."""
import warnings, sys, collections
warnings.filterwarnings("ignore")
import numpy as np
import vectorizers as V
import vectorizers.coo_utils as cu
import vectorizers.token_cooccurrence_vectorizer as tok, vectorizers.timed_token_cooccurrence_vectorizer as tim, vectorizers.ngram_token_cooccurence_vectorizer as ngr, vectorizers.multi_token_cooccurence_vectorizer as mul
print("USING", V.__file__)
LIMIT=int(sys.argv[1]); cu.COO_QUICKSORT_LIMIT=LIMIT
rs=np.random.RandomState(int(sys.argv[2]))
orig=cu.coo_append
shadow={}    # id(ind) -> dict key -> [row,col,sum]
states=collections.Counter(); evals=[0]; viol=[]
class Broken(Exception): pass
def check(coo, sh, where):
    evals[0]+=1
    n=int(coo.ind[0])
    if n>len(coo.key): raise Broken(("ind beyond buffer",where,n,len(coo.key)))
    agg={}
    for r,c,v,k in zip(coo.row[:n],coo.col[:n],coo.val[:n],coo.key[:n]):
        a=agg.setdefault(int(k),[int(r),int(c),0.0]); a[2]+=float(v)
        if (a[0],a[1])!=(int(r),int(c)): raise Broken(("key/rowcol mismatch",where,k))
    if set(agg)!=set(sh): raise Broken(("key set differs",where,sorted(set(sh)-set(agg))[:5],sorted(set(agg)-set(sh))[:5], n, len(coo.key)))
    for k in sh:
        if abs(agg[k][2]-sh[k][2])>1e-5*max(1,abs(sh[k][2])): raise Broken(("sum differs",where,k,agg[k][2],sh[k][2]))
def wrapped(coo, tup):
    sid=id(coo.ind); sh=shadow.setdefault(sid,{})
    before=(int(coo.ind[0]),len(coo.key))
    new=orig(coo,tup)
    a=sh.setdefault(int(tup[3]),[int(tup[0]),int(tup[1]),0.0]); a[2]+=float(tup[2])
    after=(int(new.ind[0]),len(new.key))
    if after[0]!=before[0]+1 or after[1]!=before[1]:
        states[(int(new.depth[0]), int((new.min>0).sum()), after[1]!=before[1])]+=1
        check(new,sh,"after-compaction")
    return new
for m in (tok,tim,ngr,mul): m.coo_append=wrapped
def final_wrap(mod, fname):
    f=getattr(mod,fname)
    def g(*a,**k):
        res=f(*a,**k)
        for coo in res:
            sh=shadow.get(id(coo.ind))
            if sh is not None: check(coo,sh,"final")
        return res
    setattr(mod,fname,g)
final_wrap(tok,"numba_build_skip_grams"); final_wrap(tim,"numba_build_skip_grams"); final_wrap(ngr,"numba_build_skip_grams"); final_wrap(mul,"numba_build_multi_skip_grams")
res=collections.Counter()
for rep in range(int(sys.argv[3])):
    vocab=int(rs.choice([1,2,5,12,40])); ndoc=rs.randint(1,6)
    docs=[["t%d"%rs.randint(vocab) for _ in range(rs.randint(0,80))] for _ in range(ndoc)]
    mem=str(rs.choice(["1k","4k","0.5 GiB"])); r=int(rs.randint(1,5))
    which=rs.choice(["token","timed","ngram","multi"])
    shadow.clear()
    try:
        if which=="token": V.TokenCooccurrenceVectorizer(window_radii=r, coo_initial_memory=mem, normalize_windows=bool(rs.rand()<0.5)).fit_transform(docs)
        elif which=="timed": V.TimedTokenCooccurrenceVectorizer(window_radii=r, coo_initial_memory=mem).fit_transform([[(t,float(i)) for i,t in enumerate(d)] for d in docs])
        elif which=="ngram": V.NgramCooccurrenceVectorizer(window_radii=r, coo_initial_memory=mem, ngram_size=2).fit_transform(docs)
        else: V.MultiSetCooccurrenceVectorizer(window_radii=r, coo_initial_memory=mem).fit_transform([[d[i:i+3] for i in range(0,len(d),3)] for d in docs if len(d)>0] or [[["t0"]]])
        res[which+"/ok"]+=1
    except Broken as b:
        res[which+"/BROKEN:"+b.args[0][0]]+=1
        if len(viol)<4: viol.append((which,mem,r,vocab,b.args[0]))
    except ValueError as e: res[which+"/ValueError"]+=1
    except IndexError as e:
        res[which+"/IndexError"]+=1
        if len(viol)<6: viol.append((which,mem,r,vocab,str(e)))
print("LIMIT",LIMIT,"contract evaluations",evals[0], dict(res)); print("distinct coo states (depth,#runs,grew):", len(states), sorted(states.items())[:12]); 
for v in viol: print("WITNESS", v)
