import warnings, time, sys
warnings.filterwarnings("ignore")
import numpy as np
from scipy.optimize import linprog
from vectorizers.linear_optimal_transport import transport_plan
rs=np.random.RandomState(int(sys.argv[1]) if len(sys.argv)>1 else 0)
def lp(p,q,C):
    n,m=C.shape
    A=np.zeros((n+m,n*m))
    for i in range(n): A[i,i*m:(i+1)*m]=1
    for j in range(m): A[n+j,j::m]=1
    b=np.concatenate([p,q])
    r=linprog(C.ravel(),A_eq=A,b_eq=b,bounds=(0,None),method="highs")
    return r
bad=0; worst=0; t0=time.time(); N=300
kinds={}
for k in range(N):
    n=rs.randint(1,9); m=rs.randint(1,9)
    p=rs.dirichlet(np.ones(n)*rs.choice([0.2,1,5])); q=rs.dirichlet(np.ones(m)*rs.choice([0.2,1,5]))
    if rs.rand()<0.3 and n>1: p[rs.randint(n)]=0; p/=p.sum()
    if rs.rand()<0.2 and m>1: q[rs.randint(m)]=1e-9; q/=q.sum()
    kind=rs.choice(["cont","int","zeros","rank1"])
    if kind=="cont": C=rs.rand(n,m)
    elif kind=="int": C=rs.randint(0,4,size=(n,m)).astype(float)
    elif kind=="zeros": C=rs.rand(n,m)*(rs.rand(n,m)<0.5)
    else: C=np.outer(rs.rand(n),rs.rand(m))
    if rs.rand()<0.5: C=np.asfortranarray(C)
    try:
        P=transport_plan(p,q,C)
    except Exception as e:
        print("EXC",type(e).__name__,e,n,m,kind); bad+=1; continue
    r=lp(p,q,C)
    rowerr=np.abs(P.sum(1)-p).max(); colerr=np.abs(P.sum(0)-q).max(); neg=P.min()
    cost=(P*C).sum(); gap=cost-r.fun
    du=r.eqlin.marginals; dual=du@np.concatenate([p,q])
    ok = rowerr<1e-9 and colerr<1e-9 and neg>-1e-12 and gap<=1e-7*max(1,abs(r.fun))+1e-12
    worst=max(worst,gap)
    if not ok:
        bad+=1; print("VIOL",n,m,kind,"rowerr",rowerr,"colerr",colerr,"neg",neg,"gap",gap,"lp",r.fun)
    kinds[kind]=kinds.get(kind,0)+1
print("problems",N,"bad",bad,"worst gap",worst,"dual ok sample",abs(dual-r.fun),"time %.1f"%(time.time()-t0),kinds)
