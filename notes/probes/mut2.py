import sys, os, shutil, subprocess, re
def run(tree, cmd):
    env=dict(os.environ, PYTHONPATH=tree, NUMBA_DISABLE_JIT="1")
    r=subprocess.run(cmd, cwd="/tmp/probe", env=env, capture_output=True, text=True, timeout=1500); out=r.stdout
    keys=set()
    if r.returncode!=0: keys.add("CRASH:"+(r.stderr.strip().splitlines() or ["?"])[-1][:80])
    if "--textdiff" in sys.argv:
        import re as _re
        for line in out.splitlines():
            if line.startswith("USING"): continue
            keys.add(_re.sub(r"tmp[a-z0-9_]{8}","tmpX",line)[:200])
    for line in out.splitlines():
        m=re.match(r"^(\S.*?)\s+(\d+)/\s*(\d+)\s+FAIL", line)
        if m: keys.add(m.group(1).strip())
        if line.startswith(("MISMATCH","Traceback","ISSUE","C03 VIOL","C11 VIOL")): keys.add(line.split()[0]+" "+(line.split()[1] if len(line.split())>1 else ""))
        if "Error" in line and not line.startswith(" "): keys.add("ERR:"+line[:60])
    return keys, out
base_cache={}
def trial(name, file, old, new, cmd):
    key=" ".join(cmd)
    if key not in base_cache: base_cache[key]=run("/tmp/probe/fixed", cmd)[0]
    mt="/tmp/probe/mutant"; shutil.rmtree(mt, ignore_errors=True); os.makedirs(mt); shutil.copytree("/tmp/probe/fixed/vectorizers", mt+"/vectorizers")
    p=mt+"/vectorizers/"+file; s=open(p).read()
    if s.count(old)<1: print("MUTANT %-22s pattern not found"%name); return
    open(p,"w").write(s.replace(old,new,1))
    keys,_=run(mt, cmd); newk=sorted(keys-base_cache[key])
    print("MUTANT %-22s %s  new failing oracles: %s"%(name, "CAUGHT  " if newk else "SURVIVED", newk[:4]), flush=True)
    shutil.rmtree(mt, ignore_errors=True)
py="/venv/bin/python"
P18=[py,"p18.py","1","60"]; P20=[py,"p20.py","1","40"]; P25=[py,"p25.py","1","40"]; P13=[py,"p13.py","1","60"]; P15=[py,"p15.py","3"]; P23=[py,"p23.py"]
T=[
("C05-lt-le","preprocessing.py","token_frequencies < min_frequency","token_frequencies <= min_frequency",P18),
("C05-f16","preprocessing.py","np.float32\n    )","np.float16\n    )",P18),
("C05-maxunique","preprocessing.py","[-max_unique_tokens - 1]","[-max_unique_tokens]",P18),
("C05-sorted","preprocessing.py","unique_tokens = sorted(list(set(token_sequence)))","unique_tokens = list(dict.fromkeys(token_sequence))",P18),
("C05-fullmatch","preprocessing.py","regex.fullmatch(token)","regex.match(token)",P18),
("C05-docfreq","preprocessing.py","    return doc_freq / len(token_by_doc_sequence)\n\n\ndef construct_timed","    return doc_freq / (len(token_by_doc_sequence) + 1)\n\n\ndef construct_timed",P18),
("C06-ngram-bound","ngram_vectorizer.py","if i + ngram_size <= len(sequence):","if i + ngram_size < len(sequence):",P18),
("C06-skip-decode","skip_gram_vectorizer.py","raw_val // len(self._token_dictionary_)","raw_val % len(self._token_dictionary_)",P18),
("C06-edgelist-valid","edge_list_vectorizer.py","valid_edges = valid_rows & valid_cols\n        row_indices = [\n            self.row","valid_edges = valid_rows & valid_cols\n        valid_edges[-1] = False\n        row_indices = [\n            self.row",P18),
("C16-start","mixed_gram_vectorizer.py","            dictionary[ngram] = 1\n            current_size += 1\n            start = end","            dictionary[ngram] = 1\n            current_size += 1\n            start = end + 1",P18),
("C16-cap","mixed_gram_vectorizer.py","elif current_size >= max_size:","elif current_size > max_size:",P18),
("C17-sort","transformers/info_weight.py","    if not csc_data.has_sorted_indices:\n","    if False:\n",P18),
("C17-idx","transformers/info_weight.py","count_data[idx] + prior_strength * baseline_probabilities[i]","count_data[idx - 1] + prior_strength * baseline_probabilities[i]",P18),
("C19-count","transformers/sliding_windows.py","last_window_start = sequence.shape[0] - width + 1","last_window_start = sequence.shape[0] - width",P18),
("C19-pad","transformers/sliding_windows.py","new_shape = (2 * pad_width + sequence.shape[0]","new_shape = (pad_width + 1 + sequence.shape[0]",P18),
("C20-outlier","_vectorizers.py","        interval_list.append(right_outlier)","        pass",P18),
("C20-cut","_vectorizers.py","return pd.cut(vector, self.bin_intervals_).value_counts()","return pd.cut(vector, self.bin_intervals_[:-1]).value_counts().reindex(self.bin_intervals_, fill_value=0)",P18),
("C20-kde-grid","kde_vectorizer.py","kde.score_samples(self.evaluation_grid_[:, None])","kde.score_samples(np.sort(self.evaluation_grid_)[::-1][:, None])",P18),
("C15-power","tree_token_cooccurrence.py","for i in range(1, window_size):","for i in range(1, window_size - 1):",P20),
("C15-transpose","tree_token_cooccurrence.py","    if window_orientation == \"before\":\n        global_counts = global_counts.T","    if window_orientation == \"before\":\n        global_counts = global_counts",P20),
("C15-collapse2","utils.py","trans = np.hstack([trans ^ 1, trans])","trans = np.hstack([trans, trans ^ 1])",P20),
("C15-remove-node","preprocessing.py","                adj.rows[i][index_to_modify : index_to_modify + 1] = row_to_remove","                adj.rows[i][index_to_modify : index_to_modify + 1] = []",P20),
("C14-mask-index","base_cooccurrence_vectorizer.py","self._mask_index = np.int32(len(self._token_frequencies_))","self._mask_index = np.int32(len(self._token_frequencies_) - 1)",P20),
("C14-kernel-mask","_window_kernels.py","    result = np.ones(len(window), dtype=np.float64)\n    if mask_index is not None:\n        result[window == mask_index] = 0.0","    result = np.ones(len(window), dtype=np.float64)\n    if mask_index is not None:\n        pass",P20),
("C14-radii-mask","_window_kernels.py","    radii = np.repeat(window_size, len(token_frequency) + 1)\n    if mask_index is not None:\n        radii[mask_index] = 0.0","    radii = np.repeat(window_size, len(token_frequency) + 1)",P20),
("C03-window-clip","_window_kernels.py","min(ind + window_size + 1, len(token_sequence))","min(ind + window_size, len(token_sequence))",P13),
("C03-block-offset","ngram_token_cooccurence_vectorizer.py","col = context + i * n_unique_tokens","col = context + (n_windows - 1 - i) * n_unique_tokens",P13),
("C03-flip","_window_kernels.py","return np.flipud(token_sequence[max(ind - window_size, 0) : ind])","return token_sequence[max(ind - window_size, 0) : ind]",P13),
("C03-timed-abs","timed_token_cooccurrence_vectorizer.py","[np.abs(w[1] - target_time) for w in win], dtype=np.float64","[(w[1] - target_time) for w in win], dtype=np.float64",P13),
("C03-multi-target","_window_kernels.py","    kernel_result[target_ind] = 0\n\n    if normalize:\n        temp = kernel_result.sum()\n        if temp > 0:\n            kernel_result /= temp\n\n    return kernel_result\n\n\n@numba.njit(nogil=True)\ndef multi_geometric","    if normalize:\n        temp = kernel_result.sum()\n        if temp > 0:\n            kernel_result /= temp\n\n    return kernel_result\n\n\n@numba.njit(nogil=True)\ndef multi_geometric",P13),
("C02-cooc-mask","base_cooccurrence_vectorizer.py","            X, token_dictionary=self.token_label_dictionary_, masking=self.mask_string\n","            X, token_dictionary=self.token_label_dictionary_, masking=None\n",P25),
("C06-add-map","ngram_vectorizer.py","other.column_label_dictionary_[word]: joint_column_label_dictionary[word]","self.column_label_dictionary_.get(word, 0): joint_column_label_dictionary[word]",P25),
("C17-clamp","transformers/info_weight.py","            self.information_weights_ = np.maximum(self.information_weights_, 0.0)\n            self.information_weights_ = np.power(\n                self.information_weights_, self.weight_power","            self.information_weights_ = np.power(\n                self.information_weights_ - 1.0, self.weight_power",P25),
("C09-tiebreak","mixed_gram_vectorizer.py","(length == best_length and pair > result)","(length == best_length and pair < result)",P15),
("C09-charcode","mixed_gram_vectorizer.py","compressed_chars[i] = code if code <= max_char_code else 0","compressed_chars[i] = code if code < max_char_code else 0",P15),
("C09-encode-order","mixed_gram_vectorizer.py","    for code_pair in code_list:\n        compressed_chars = contract_pair","    for code_pair in code_list[::-1]:\n        compressed_chars = contract_pair",P15),
("C15-noreconnect","preprocessing.py","                adj.rows[i][index_to_modify : index_to_modify + 1] = row_to_remove\n                adj.data[i][index_to_modify : index_to_modify + 1] = data_to_remove","                adj.rows[i][index_to_modify : index_to_modify + 1] = []\n                adj.data[i][index_to_modify : index_to_modify + 1] = []",P20),
("C13-normalize-inplace","transformers/row_desnoise.py","            normalize(X, norm=\"l1\"),","            normalize(X, norm=\"l1\", copy=False),",[py,"harness.py","2","6"]),
("C13-copy","transformers/row_desnoise.py","        result = matrix.copy().astype(np.float32)","        result = matrix.astype(np.float32, copy=False)",P23),
("C13-rmtree","linear_optimal_transport.py","            shutil.rmtree(scratch, ignore_errors=True)","            pass",P23),
]
sel=sys.argv[1:] 
for t in T:
    if not sel or any(t[0].startswith(x) for x in sel): trial(*t)
