import os, sys, warnings, time
warnings.filterwarnings("ignore")
import numpy as np
import vectorizers.coo_utils as cu
cu.COO_QUICKSORT_LIMIT = 8        # patched before any compilation
import vectorizers as V
print("file", V.__file__)
rs=np.random.RandomState(0)
docs=[[str(rs.randint(9)) for _ in range(60)] for _ in range(6)]
v=V.TokenCooccurrenceVectorizer(window_radii=3, normalize_windows=False, coo_initial_memory="1k")
try:
    m=v.fit_transform(docs); print("sizes", v._coo_sizes, "sum", m.sum(), "nnz", m.nnz)
except Exception as e: print("EXC", type(e).__name__, e)
# independent count
n=len(v.token_label_dictionary_); exp=np.zeros((n,2*n))
for d in docs:
    s=[v.token_label_dictionary_[t] for t in d]
    for i,t in enumerate(s):
        for k in range(1,4):
            if i+k<len(s): exp[t, n+s[i+k]]+=1
            if i-k>=0: exp[t, s[i-k]]+=1
print("expected sum", exp.sum(), "max abs diff", np.abs(exp-m.toarray()).max() if 'm' in dir() else None)
from vectorizers.preprocessing import preprocess_token_sequences
seqs,_,_,_=preprocess_token_sequences(docs, token_dictionary=dict(v.token_label_dictionary_))
coo=v._build_skip_grams(seqs)
print("buffer lengths after build:", [len(c.key) for c in coo], "ind", [int(c.ind[0]) for c in coo], "depth", [int(c.depth[0]) for c in coo], "min", [list(c.min) for c in coo])
