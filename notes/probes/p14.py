import warnings, sys
warnings.filterwarnings("ignore")
import numpy as np
sys.path.insert(0,"/tmp/probe")
from ref2 import *
import vectorizers as V
np.set_printoptions(linewidth=200, precision=3, suppress=True)
# multiset case
mdocs=[[['t0','t0'],[]], [['t4','t2','t1'],[],['t1'],[]]]
P=dict(kernel=['geometric','geometric'],power=[0.5,0.5],offset=[0,0],knorm=[False,True],mix=[1.0,0.5],normalize_windows=False,mask_index=None)
kargs=[{"normalize":False,"offset":0,"power":0.5},{"normalize":True,"offset":0,"power":0.5}]
v=V.MultiSetCooccurrenceVectorizer(window_radii=[2,2], window_orientations=["after","before"], kernel_functions=P["kernel"], window_functions=["fixed"]*2, kernel_args=kargs, mix_weights=P["mix"], normalize_windows=False)
m=v.fit_transform(mdocs).toarray(); td=v.token_label_dictionary_; n=len(td); print(td)
idocs=[[[td[t] for t in ms] for ms in d] for d in mdocs]
M,_=multi_cooc(idocs,n,expand(["after","before"]),[2,2],P)
print("impl\n",m); print("ref\n",M)
# single-doc variants
for md in ([[['t0','t0'],[]]], [[['t4','t2','t1'],[],['t1'],[]]]):
    try:
        v=V.MultiSetCooccurrenceVectorizer(window_radii=[2,2], window_orientations=["after","before"], kernel_functions=P["kernel"], window_functions=["fixed"]*2, kernel_args=kargs, mix_weights=P["mix"], normalize_windows=False)
        m=v.fit_transform(md).toarray(); td=v.token_label_dictionary_; n=len(td)
        idocs=[[[td[t] for t in ms] for ms in d] for d in md]
        M,_=multi_cooc(idocs,n,expand(["after","before"]),[2,2],P)
        print(md, "maxdiff", np.abs(m-M).max()); print(m); print(M)
    except Exception as e: print(md,"EXC",e)
# ngram case
docs=[['t0','t1'],[],['t0','t1','t0']]
v=V.NgramCooccurrenceVectorizer(ngram_size=2, window_radii=[3,2], window_orientations=["after","directional"], kernel_functions=["flat","flat"], window_functions=["fixed","fixed"], normalize_windows=False)
m=v.fit_transform(docs).toarray(); print(v.ngram_label_dictionary_, v.token_label_dictionary_, v.column_label_dictionary_); print(m)
