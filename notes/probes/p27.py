import warnings, sys, time
warnings.filterwarnings("ignore")
import numpy as np, numba
from vectorizers import BytePairEncodingVectorizer as B
rs=np.random.RandomState(0)
train=["".join(rs.choice(list("abcde"), size=rs.randint(2,60))) for _ in range(300)]
b=B(max_vocab_size=40, return_type="sequences").fit(train)
test=["".join(rs.choice(list("abcdexyz"), size=rs.randint(0,80))) for _ in range(20000)]
def dec(e): return "".join(chr(c) if c<=b.max_char_code_ else b.tokens_[c-b.max_char_code_-1] for c in e)
print("threads", numba.get_num_threads(), "layer", numba.threading_layer() if hasattr(numba,"threading_layer") else "?")
ref=None; t0=time.time(); bad=0
for rep in range(5):
    enc=b.transform(test); sig=[tuple(int(c) for c in e) for e in enc]
    if ref is None: ref=sig
    elif sig!=ref: bad+=1; print("run differs from first run!")
    wrong=sum(1 for s,e in zip(test,sig) if dec(e)!=s)
    if wrong: bad+=1; print("decode mismatches:", wrong)
print("5 runs x 20000 strings: bad =", bad, "time %.1fs"%(time.time()-t0)); import hashlib; print("sig", hashlib.sha1(repr(ref).encode()).hexdigest()[:12])
