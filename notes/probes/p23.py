"""Probe prototype: C13 histories, parameter objects, temp files via audit hook, fault injection."""
import warnings, sys, os, tempfile, copy
warnings.filterwarnings("ignore")
import numpy as np, scipy.sparse as sp
events=[]
def hook(ev,args):
    if ev in ("tempfile.mkdtemp","os.mkdir","os.remove","os.rmdir","shutil.rmtree") or (ev=="open" and isinstance(args[0],str) and args[1] and any(c in str(args[1]) for c in "wa+x") and "/probe/c13" in args[0]):
        events.append((ev,)+tuple(str(a)[:80] for a in args[:2]))
sys.addaudithook(hook)
import vectorizers as V, vectorizers.linear_optimal_transport as lot
from vectorizers.transformers import *
print("USING", V.__file__)
rs=np.random.RandomState(0)
base="/tmp/probe/c13"; os.makedirs(base,exist_ok=True)
def snap(x):
    if sp.issparse(x): return ("sp",x.format,x.shape)+tuple(np.asarray(getattr(x,a)).tobytes() for a in ("data","indices","indptr") if hasattr(x,a))
    if isinstance(x,np.ndarray): return ("nd",x.dtype.str,x.shape,x.tobytes())
    if isinstance(x,dict): return ("dict",tuple((repr(k),snap(v)) for k,v in x.items()))
    if isinstance(x,(list,tuple)): return (type(x).__name__,tuple(snap(v) for v in x))
    return repr(x)
npts=25; dim=3; vec=rs.normal(size=(npts,dim)); X=sp.random(40,npts,density=0.3,random_state=1,format="lil")
for i in range(40):
    if len(X.rows[i])<2:
        for j in rs.choice(npts,2,replace=False): X[i,j]=0.5
X=X.tocsr()
# --- temp files: clean multi-block fit, all four spill sites
for name,mk,args,kw in (
  ("spmatrix exact", lambda cd: V.WassersteinVectorizer(n_components=5, reference_size=3, random_state=1, memory_size="1k", cachedir=cd), (X,), dict(vectors=vec)),
  ("spmatrix sinkhorn", lambda cd: V.WassersteinVectorizer(method="LOT_sinkhorn", n_components=5, reference_size=3, random_state=1, memory_size="1k", cachedir=cd), (X,), dict(vectors=vec)),
  ("sinkhorn vec", lambda cd: V.SinkhornVectorizer(n_components=5, reference_size=3, random_state=1, memory_size="1k", cachedir=cd), (X,), dict(vectors=vec)),
  ("lil", lambda cd: V.WassersteinVectorizer(input_method="lil", n_components=5, reference_size=3, random_state=1, memory_size="1k", cachedir=cd), ([np.array(r,dtype=float) for r in X.tolil().data],), dict(vectors=[np.ascontiguousarray(vec[r]) for r in X.tolil().rows])),
):
    cd=tempfile.mkdtemp(dir=base); events.clear()
    s_before=snap(args[0]); sv=snap(kw["vectors"])
    try: mk(cd).fit(*args,**kw); out="ok"
    except Exception as e: out="EXC %s %s"%(type(e).__name__, str(e)[:60])
    created=[e for e in events if e[0] in("tempfile.mkdtemp","os.mkdir","open")]
    print("%-18s %s | leftovers=%s | audit: %d create events, %d remove events | X changed=%s vectors changed=%s"%(name,out,os.listdir(cd),len(created),len([e for e in events if e[0] in("os.remove","os.rmdir","shutil.rmtree")]), snap(args[0])!=s_before, snap(kw["vectors"])!=sv))
# --- fault enumeration on the spmatrix exact multi-block fit: fail the k-th call of selected functions
import sklearn.utils.extmath
targets=[("np.memmap", np, "memmap"), ("lot.randomized_svd", lot, "randomized_svd"), ("os.remove", os, "remove"), ("lot.lot_vectors_sparse_internal", lot, "lot_vectors_sparse_internal")]
for tname,mod,attr in targets:
    orig=getattr(mod,attr); calls=[0]
    def counting(*a,**k): calls[0]+=1; return orig(*a,**k)
    setattr(mod,attr,counting); cd=tempfile.mkdtemp(dir=base)
    V.WassersteinVectorizer(n_components=5, reference_size=3, random_state=1, memory_size="1k", cachedir=cd).fit(X,vectors=vec); n=calls[0]; setattr(mod,attr,orig)
    left=0; raised=0
    for k in range(1,n+1):
        c=[0]
        def failing(*a,**kw_):
            c[0]+=1
            if c[0]==k: raise OSError("injected fault #%d in %s"%(k,tname))
            return orig(*a,**kw_)
        setattr(mod,attr,failing); cd=tempfile.mkdtemp(dir=base)
        try: V.WassersteinVectorizer(n_components=5, reference_size=3, random_state=1, memory_size="1k", cachedir=cd).fit(X,vectors=vec)
        except OSError: raised+=1
        finally: setattr(mod,attr,orig)
        if os.listdir(cd): left+=1
    print("fault target %-34s calls in clean run=%2d injected=%2d raised=%2d runs with leftovers=%d"%(tname,n,n,raised,left))
# --- parameter objects and histories (token vectorizer with user dictionary + mask)
td={"a":0,"b":1,"c":2}; s0=snap(td)
v=V.TokenCooccurrenceVectorizer(token_dictionary=td, mask_string="[M]", window_radii=2)
X1=[["a","b","z","a"],["c","a"]]; X2=[["q","a","b"]]; X3=[["a",1,"b"]]
v.fit(X1); o1=v.transform(X1).toarray(); o2=v.transform(X2).toarray()
try: v.transform(X3)
except Exception as e: print("raising transform:",type(e).__name__)
o1b=v.transform(X1).toarray(); print("user dict changed:", snap(td)!=s0, "| repeat transform equal:", np.array_equal(o1,o1b), "| fitted dict:", v.token_label_dictionary_)
import shutil; shutil.rmtree(base)
