"""Probe prototypes: C02/C01 for co-occurrence family, C06 '+', C17 transformer, C07 in-situ interception."""
import warnings, sys, collections
warnings.filterwarnings("ignore")
import numpy as np, scipy.sparse as sp
import vectorizers as V, vectorizers.linear_optimal_transport as lot
from vectorizers.transformers import *
print("USING", V.__file__)
seed=int(sys.argv[1]); N=int(sys.argv[2]); rs=np.random.RandomState(seed)
stats={}
def note(k,ok,info=None):
    s=stats.setdefault(k,[0,0,[]]); s[0]+=1
    if not ok:
        s[1]+=1
        if len(s[2])<2: s[2].append(info)
def tr(f):
    try: return f()
    except Exception as e:
        import traceback; return ("EXC",type(e).__name__,str(e)[:120], traceback.extract_tb(sys.exc_info()[2])[-1][1:3])
def mk_docs(n,vocab,unseen=0.0,maxlen=25): return [["t%d"%rs.randint(vocab) if rs.rand()>=unseen else "u%d"%rs.randint(3) for _ in range(rs.randint(0,maxlen))] for _ in range(n)]
for rep in range(N):
    vocab=rs.randint(2,9); docs=mk_docs(rs.randint(1,7),vocab)
    if len(set(t for d in docs for t in d))<2: continue
    kw=dict(window_radii=int(rs.randint(1,5)), window_orientations=str(rs.choice(["before","after","directional"])), kernel_functions=str(rs.choice(["flat","geometric"])),
            normalize_windows=bool(rs.rand()<0.5), n_iter=int(rs.choice([0,0,1,2])), epsilon=float(rs.choice([0,0,0.01,0.1])), n_threads=int(rs.choice([1,1,3])),
            window_functions=str(rs.choice(["fixed","variable"])))
    if rs.rand()<0.4: kw.update(min_occurrences=2, mask_string=(None if rs.rand()<0.5 else "[M]"))
    if kw.get("mask_string") and rs.rand()<0.5: kw["nullify_mask"]=True
    fams=[("token",V.TokenCooccurrenceVectorizer,lambda d:d,{}),("ngram",V.NgramCooccurrenceVectorizer,lambda d:d,{"ngram_size":int(rs.choice([1,2]))}),
          ("timed",V.TimedTokenCooccurrenceVectorizer,lambda d:[[(t,float(i)*0.5) for i,t in enumerate(x)] for x in d],{}),
          ("multi",V.MultiSetCooccurrenceVectorizer,lambda d:[[x[i:i+2] for i in range(0,len(x),2)] for x in d if x],{})]
    for name,cls,conv,extra in fams:
        kk=dict(kw); kk.update(extra)
        if name in("timed","multi") and kk["kernel_functions"] not in ("flat","geometric"): kk["kernel_functions"]="flat"
        if name=="multi": kk["window_functions"]="fixed"
        X=conv(docs)
        if not X: continue
        a=cls(**kk); b=cls(**kk)
        ft=tr(lambda: a.fit_transform(X)); r=tr(lambda: b.fit(X))
        if isinstance(ft,tuple) or isinstance(r,tuple):
            both = isinstance(ft,tuple) and isinstance(r,tuple) and ft[1]==r[1]=="ValueError"
            note("C02 cooc exc-consistent/"+name, both, (kk,ft if isinstance(ft,tuple) else None, r if isinstance(r,tuple) else None, X if len(str(X))<200 else "..")); continue
        note("C02 fit is self/"+name, r is b)
        t=tr(lambda: b.transform(X))
        note("C02 cooc ft==f.t/"+name, (not isinstance(t,tuple)) and ft.shape==t.shape and np.array_equal(ft.toarray(),t.toarray()), (kk, t if isinstance(t,tuple) else float(np.abs(ft.toarray()-t.toarray()).max())))
        # C01: transform X' with unseen tokens / empties / longer
        Xp=conv(mk_docs(rs.randint(1,5),vocab,unseen=0.3,maxlen=60)+[[]])
        if not Xp: continue
        o=tr(lambda: b.transform(Xp))
        nrows=len(b.ngram_label_dictionary_) if name=="ngram" else len(b.token_label_dictionary_)
        note("C01 cooc shape/"+name, (not isinstance(o,tuple)) and o.shape==(nrows,len(b.column_label_dictionary_)), (kk,o if isinstance(o,tuple) else o.shape))
        if not isinstance(o,tuple) and not kk.get("mask_string") and name in ("token","ngram"):
            known=set(b.token_label_dictionary_); Xd=[[t for t in d if t in known] for d in Xp]
            o2=tr(lambda: b.transform(Xd))
            note("C01 unseen ignored/"+name, (not isinstance(o2,tuple)) and np.array_equal(o.toarray(),o2.toarray()), kk)
    # C06 '+'
    A=mk_docs(rs.randint(1,5),5); B=[["s%d"%rs.randint(4) if rs.rand()<0.6 else "t%d"%rs.randint(5) for _ in range(rs.randint(1,12))] for _ in range(rs.randint(1,5))]
    if any(A) and any(B):
        a=V.NgramVectorizer().fit(A); b=V.NgramVectorizer().fit(B); j=tr(lambda: a+b); c=V.NgramVectorizer().fit(A+B)
        if isinstance(j,tuple): note("C06 add exc",False,j)
        else:
            ok=set(j.column_label_dictionary_)==set(c.column_label_dictionary_)
            perm=[j.column_label_dictionary_[c.column_index_dictionary_[i]] for i in range(len(c.column_index_dictionary_))] if ok else None
            ok=ok and np.array_equal(j._train_matrix.toarray()[:,perm], c._train_matrix.toarray())
            Xq=mk_docs(3,5)+B[:2]+[["zz"]]
            tj=tr(lambda: j.transform(Xq)); tc=c.transform(Xq)
            ok=ok and (not isinstance(tj,tuple)) and np.array_equal(tj.toarray()[:,perm], tc.toarray())
            note("C06 add", ok, (A,B) if len(str((A,B)))<300 else "..")
    # C17 transformer
    n,m=rs.randint(3,9),rs.randint(3,8); C=np.floor(rs.rand(n,m)*4*(rs.rand(n,m)<0.6)); C[rs.randint(n),:]+=1; C[:,rs.randint(m)]+=1
    y=rs.randint(0,2,size=n) if rs.rand()<0.4 else None
    iw=InformationWeightTransformer(approx_prior=bool(rs.rand()<0.5), weight_power=float(rs.choice([1,2]))).fit(sp.csr_matrix(C), y)
    w=iw.information_weights_; Y=np.floor(rs.rand(3,m)*3)
    T=lambda Z: np.asarray(iw.transform(sp.csr_matrix(Z)).todense())
    ok=np.all(np.isfinite(w)) and np.all(w>=0) and np.allclose(T(Y),Y*w) and np.allclose(T(2*Y+3*C[:3]),2*T(Y)+3*T(C[:3])) and not np.any((T(Y)!=0)&(Y==0))
    note("C17 transformer", ok, (C.tolist(), None if y is None else y.tolist(), w.tolist()))
    p=rs.permutation(n); q=rs.permutation(m)
    from vectorizers.transformers.info_weight import information_weight
    for approx in (False,True):
        w0=information_weight(sp.csr_matrix(C),0.1,approx); w1=information_weight(sp.csr_matrix(C[p]),0.1,approx); w2=information_weight(sp.csr_matrix(C[:,q]),0.1,approx)
        note("C17 perm approx=%s"%approx, np.allclose(w0,w1,rtol=1e-10,atol=1e-13) and np.allclose(w0[q],w2,rtol=1e-10,atol=1e-13), None)
# C07 in-situ: wrap transport_plan in interpreted mode
calls=[]
orig=lot.transport_plan
def spy(p,q,cost,max_iter=100000):
    P=orig(p,q,cost,max_iter); calls.append((p.copy(),q.copy(),np.array(cost),P)); return P
lot.transport_plan=spy
npts=20; dim=3; vec=rs.normal(size=(npts,dim)); X=sp.random(8,npts,density=0.3,random_state=3,format="csr")
w=V.WassersteinVectorizer(n_components=4, reference_size=5, random_state=1, metric="euclidean").fit(X,vectors=vec)
lot.transport_plan=orig
okc=0
for p,q,C,P in calls:
    if C.shape==(len(p),len(q)) and np.allclose(P.sum(1),p,atol=1e-9) and np.allclose(P.sum(0),q,atol=1e-9) and P.min()>-1e-12: okc+=1
print("C07 in-situ: intercepted plans", len(calls), "feasible", okc, "| in JIT mode this interception is impossible (compiled call)")
for k in sorted(stats):
    n,b,info=stats[k]; print("%-40s %4d/%4d %s"%(k,b,n,("FAIL "+str(info)[:500]) if b else "ok"))
