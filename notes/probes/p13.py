import warnings, sys, time
warnings.filterwarnings("ignore")
import numpy as np
sys.path.insert(0,"/tmp/probe")
from ref2 import *
import vectorizers as V; print("USING", V.__file__)
seed=int(sys.argv[1]); N=int(sys.argv[2]); rs=np.random.RandomState(seed)
stats={}
def note(k,ok,info=None):
    s=stats.setdefault(k,[0,0]); s[0]+=1
    if not ok:
        s[1]+=1
        if s[1]<=3: print("MISMATCH",k,info,flush=True)
def rand_params(nw, kernels):
    kern=str(rs.choice(kernels))
    P=dict(kernel=[kern]*nw, power=[float(rs.choice([0.5,0.9]))]*nw, offset=[int(rs.choice([0,0,1,2])) for _ in range(nw)],
           knorm=[bool(rs.rand()<0.3) for _ in range(nw)], mix=[float(rs.choice([1.0,0.5,2.0])) for _ in range(nw)],
           normalize_windows=bool(rs.rand()<0.5), mask_index=None)
    kargs=[]
    for i in range(nw):
        d={"normalize":P["knorm"][i],"offset":P["offset"][i]}
        if kern=="geometric": d["power"]=P["power"][i]
        kargs.append(d)
    return P,kargs
for rep in range(N):
    orients=list(rs.choice(["before","after","directional"], size=rs.randint(1,3))); nw=len(orients); wins=expand(orients)
    radii=[int(rs.randint(0,5)) for _ in range(nw)]
    if all(r==0 for r in radii): radii[0]=2
    vocab=rs.randint(2,8)
    # ---------- variable window token
    docs=[["t%d"%min(rs.zipf(1.6)-1,vocab-1) for _ in range(rs.choice([0,1,3,6,15,40]))] for _ in range(rs.randint(1,6))]
    if len(set(t for d in docs for t in d))>=2:
        P,kargs=rand_params(nw,["flat","harmonic","geometric"])
        wf=list(rs.choice(["fixed","variable"],size=nw))
        v=V.TokenCooccurrenceVectorizer(window_radii=radii, window_orientations=orients, kernel_functions=P["kernel"], window_functions=wf, kernel_args=kargs, mix_weights=P["mix"], normalize_windows=P["normalize_windows"])
        try:
            m=v.fit_transform(docs).toarray(); td=v.token_label_dictionary_; n=len(td); seqs=[[td[t] for t in d] for d in docs]
            tot=sum(len(d) for d in docs); cnt=np.bincount([x for s in seqs for x in s],minlength=n); freq=cnt/tot
            rad=[];amb=False
            for b,(i,side) in enumerate(wins):
                if wf[i]=="fixed": rad.append(np.full(n+1,radii[i]))
                else:
                    r_,a_=variable_radii(freq,radii[i]); rad.append(r_); amb|=a_
            if not amb:
                M,CNT=seq_cooc(seqs, lambda s,p:s[p], n, n, wins, rad, P)
                tol=2*(CNT+2)*2.0**-24*M+1e-12
                note("token/var", np.all(np.abs(m-M)<=tol) or n==1, dict(wf=wf,radii=radii,orients=orients,docs=docs if len(str(docs))<200 else "..", maxd=np.abs(m-M).max()))
        except Exception as e: note("token/var", False, ("EXC",type(e).__name__,str(e)[:80]))
    # ---------- timed
    tdocs=[]
    for _ in range(rs.randint(1,5)):
        L=rs.choice([0,1,2,5,12]); ts=np.cumsum(rs.choice([0.5,1.0,0.25,3.0],size=L)) if L else []
        tdocs.append([("t%d"%rs.randint(vocab), float(x)) for x in ts])
    if sum(len(d) for d in tdocs)>=2:
        P,kargs=rand_params(nw,["flat","geometric"])
        v=V.TimedTokenCooccurrenceVectorizer(window_radii=radii, window_orientations=orients, kernel_functions=P["kernel"], window_functions=["fixed"]*nw, kernel_args=kargs, mix_weights=P["mix"], normalize_windows=P["normalize_windows"])
        try:
            m=v.fit_transform(tdocs).toarray(); td=v.token_label_dictionary_; n=len(td)
            seqs=[[td[t] for t,_ in d] for d in tdocs]; times=[[ts for _,ts in d] for d in tdocs]
            gaps=[b-a for tt in times for a,b in zip(tt[:-1],tt[1:])]; P["delta"]=(sum(gaps)/len(gaps)) if gaps else 1.0
            if P["delta"]>0 or P["kernel"][0]=="flat":
                M,CNT=seq_cooc(seqs, lambda s,p:s[p], n, n, wins, [np.full(n+1,radii[i]) for i,_ in wins], P, times=times)
                tol=2*(CNT+2)*2.0**-24*M+1e-12+ 1e-6*M   # float32 timestamps on the unchanged tree
                note("timed", np.all(np.abs(m-M)<=tol) or n==1, dict(radii=radii,orients=orients,P=P,docs=tdocs if len(str(tdocs))<300 else "..", maxd=np.abs(m-M).max()))
        except Exception as e: note("timed", False, ("EXC",type(e).__name__,str(e)[:80]))
    # ---------- multiset (fixed windows, offset 0 only on unchanged tree)
    mdocs=[[[ "t%d"%rs.randint(vocab) for _ in range(rs.randint(0,4))] for _ in range(rs.randint(1,6))] for _ in range(rs.randint(1,4))]
    mdocs=[[ms for ms in d] for d in mdocs]
    flat=[t for d in mdocs for ms in d for t in ms]
    if len(set(flat))>=2 and all(len(d[0])>0 for d in mdocs) and len(mdocs[0][0])>0:
        P,kargs=rand_params(nw,["flat","geometric"]); P["offset"]=[0]*nw
        for k in kargs: k["offset"]=0
        v=V.MultiSetCooccurrenceVectorizer(window_radii=radii, window_orientations=orients, kernel_functions=P["kernel"], window_functions=["fixed"]*nw, kernel_args=kargs, mix_weights=P["mix"], normalize_windows=P["normalize_windows"])
        try:
            m=v.fit_transform(mdocs).toarray(); td=v.token_label_dictionary_; n=len(td)
            idocs=[[[td[t] for t in ms] for ms in d] for d in mdocs]
            M,CNT=multi_cooc(idocs,n,wins,[radii[i] for i,_ in wins],P)
            tol=2*(CNT+2)*2.0**-24*M+1e-12
            note("multiset", np.all(np.abs(m-M)<=tol), dict(radii=radii,orients=orients,P=P,docs=mdocs if len(str(mdocs))<300 else "..", maxd=np.abs(m-M).max()))
        except Exception as e: note("multiset", False, ("EXC",type(e).__name__,str(e)[:80], mdocs if len(str(mdocs))<300 else ".."))
    # ---------- ngram cooc
    docs=[["t%d"%rs.randint(vocab) for _ in range(rs.choice([0,1,2,3,6,15]))] for _ in range(rs.randint(1,6))]
    ng=int(rs.choice([1,2,3]))
    if any(len(d)>=ng for d in docs):
        P,kargs=rand_params(nw,["flat","harmonic","geometric"])
        v=V.NgramCooccurrenceVectorizer(ngram_size=ng, window_radii=radii, window_orientations=orients, kernel_functions=P["kernel"], window_functions=["fixed"]*nw, kernel_args=kargs, mix_weights=P["mix"], normalize_windows=P["normalize_windows"])
        try:
            m=v.fit_transform(docs).toarray(); td=v.token_label_dictionary_; n=len(td); seqs=[[td[t] for t in d] for d in docs]
            inv={i:t for t,i in td.items()}
            nl=v.ngram_label_dictionary_
            def rows_of(s,p,ng=ng,nl=nl,inv=inv):
                return nl.get("_".join(str(inv[x]) for x in s[p-ng+1:p+1]))
            M,CNT=seq_cooc(seqs, rows_of, len(nl), n, wins, [np.full(len(nl)+1,radii[i]) for i,_ in wins], P, ngram=ng)
            tol=2*(CNT+2)*2.0**-24*M+1e-12
            note("ngramcooc", m.shape==M.shape and np.all(np.abs(m-M)<=tol), dict(ng=ng,radii=radii,orients=orients,docs=docs if len(str(docs))<300 else "..", shapes=(m.shape,M.shape)))
        except Exception as e: note("ngramcooc", False, ("EXC",type(e).__name__,str(e)[:80], ng, docs if len(str(docs))<200 else ".."))
print("seed",seed,{k:tuple(v) for k,v in stats.items()})
