import warnings, sys, time, itertools
warnings.filterwarnings("ignore")
import numpy as np
import vectorizers as V; print("USING", V.__file__)
from vectorizers import BytePairEncodingVectorizer as B
def decode(seq, b): return "".join(chr(c) if c<=b.max_char_code_ else b.tokens_[c-b.max_char_code_-1] for c in seq)
def tokstr(c,b): return chr(c) if c<=b.max_char_code_ else b.tokens_[c-b.max_char_code_-1]
alpha="ab"; strings=[""]+["".join(p) for L in range(1,int(sys.argv[1])+1) for p in itertools.product(alpha,repeat=L)]
test=[""]+["".join(p) for L in range(1,6) for p in itertools.product("abc",repeat=L)]
stats={}; shown={}
def note(k,info):
    stats[k]=stats.get(k,0)+1
    if shown.get(k,0)<3: shown[k]=shown.get(k,0)+1; print("ISSUE",k,info,flush=True)
t0=time.time(); ncorp=0
corpora=[[s] for s in strings]+[[s,t] for s in strings for t in strings]
for corp in corpora:
    ncorp+=1
    haspairrep = True
    for mv in (1,3,50):
        b=B(max_vocab_size=mv, return_type="sequences")
        try: enc=b.fit_transform(corp)
        except Exception as e:
            note("fit-exc:"+type(e).__name__, (corp, str(e)[:60])); break
        if len(b.tokens_)>mv: note("vocab>max",(corp,mv,b.tokens_))
        for i,(p,q) in enumerate(b.code_list_):
            try:
                if tokstr(p,b)+tokstr(q,b)!=b.tokens_[i]: note("token!=pair",(corp,mv,b.tokens_,b.code_list_)); break
            except Exception as e: note("token-pair-exc",(corp,mv,b.tokens_,b.code_list_)); break
        for s,e in zip(corp,enc):
            try:
                if decode(e,b)!=s: note("fit-decode",(corp,mv,s,list(map(int,e)),b.tokens_))
            except Exception as ex: note("fit-decode-exc",(corp,mv,s,list(map(int,e)),b.tokens_,b.code_list_))
        try:
            tr=b.transform(corp)
            for e1,e2 in zip(enc,tr):
                if list(e1)!=list(e2): note("fit!=transform",(corp,mv,list(map(int,e1)),list(map(int,e2)),b.tokens_)); break
        except Exception as ex: note("transform-exc:"+type(ex).__name__,(corp,mv,str(ex)[:60]))
        if ncorp%7==0 and mv==3:
            try:
                tr=b.transform(test)
                for s,e in zip(test,tr):
                    exp="".join(ch if ord(ch)<=b.max_char_code_ else chr(0) for ch in s)
                    if decode(e,b)!=exp: note("transform-decode",(corp,s,list(map(int,e)),b.tokens_,b.max_char_code_)); break
            except Exception as ex: note("transform-test-exc:"+type(ex).__name__,(corp,str(ex)[:60]))
print("corpora",ncorp,"time %.0fs"%(time.time()-t0), stats)
