"""Probe: real-threshold volume runs for all four co-occurrence vectorizers + transform of a 30x larger corpus (JIT)."""
import warnings, sys, time
warnings.filterwarnings("ignore")
import numpy as np
import vectorizers as V
print("USING", V.__file__)
rs=np.random.RandomState(0)
def vec_ref(seqs, n, r):
    M=np.zeros((n,2*n))
    for s in seqs:
        s=np.asarray(s)
        for d in range(1,r+1):
            if len(s)>d:
                a=s[:-d]; b=s[d:]; np.add.at(M,(a,n+b),1.0); np.add.at(M,(b,a),1.0)
    return M
R=4
for vocab in (10, 900):
    docs=[[int(x) for x in rs.randint(vocab,size=rs.randint(20,300))] for _ in range(900)]
    small=docs[:30]
    for name,cls,conv in (("token",V.TokenCooccurrenceVectorizer,lambda d:d),("timed",V.TimedTokenCooccurrenceVectorizer,lambda d:[[(t,float(i)) for i,t in enumerate(x)] for x in d]),
                          ("ngram1",V.NgramCooccurrenceVectorizer,lambda d:d),("multi",V.MultiSetCooccurrenceVectorizer,lambda d:[[[t] for t in x] for x in d])):
        res={}
        for mem in ("64k","2M","0.5 GiB"):
            kw=dict(window_radii=R, normalize_windows=False, coo_initial_memory=mem)
            if name=="ngram1": kw["ngram_size"]=1
            t0=time.time()
            try:
                v=cls(**kw); m=v.fit_transform(conv(docs)); td=v.token_label_dictionary_
                seqs=[[td[t] for t in d] for d in docs]; M=vec_ref(seqs,len(td),R)
                if name=="multi": # own-multiset singleton: before/after windows contain only other multisets -> same as token
                    pass
                d1=np.abs(m.toarray()-M).max()
                # fit on small, transform whole (dictionary must cover: use fixed dictionary)
                v2=cls(token_dictionary={t:i for t,i in td.items()}, **kw); v2.fit(conv(small)); m2=v2.transform(conv(docs)); d2=np.abs(m2.toarray()-M).max()
                print("%-6s vocab=%4d mem=%-8s events=%d cells=%d sizes=%s  fit maxdiff=%g  transform-30x maxdiff=%g  (%.1fs)"%(name,vocab,mem,int(M.sum()),int((M>0).sum()),v._coo_sizes.tolist(),d1,d2,time.time()-t0),flush=True)
            except Exception as e: print(name,vocab,mem,"EXC",type(e).__name__,str(e)[:100],flush=True)
