import warnings, sys, json
warnings.filterwarnings("ignore")
import numpy as np
import vectorizers as V, vectorizers.distances as D
print("USING", V.__file__)
which=sys.argv[1]
if which=="lzhash":
    S=["abracadabra","banana bandana","", "xyzxyzxyz","héllo wörld \U0001F600 \U0001F600"]
    for rsd in (0,1,7):
        v=V.LZCompressionVectorizer(max_columns=97, random_state=rsd); m=v.fit_transform(S)
        print(rsd, sorted((int(k),int(c)) for k,c in v.column_label_dictionary_.items())[:8], m.sum(), m.shape)
if which=="dist":
    rs=np.random.RandomState(0); worst={}
    def upd(k,v): worst[k]=max(worst.get(k,0),v)
    pairs=[("hellinger",D.hellinger,D.sparse_hellinger),("tv",D.total_variation,D.sparse_total_variation),("js",D.jensen_shannon_divergence,D.sparse_jensen_shannon_divergence),("skl",D.symmetric_kl_divergence,D.sparse_symmetric_kl_divergence)]
    bad=0
    for rep in range(3000):
        n=int(rs.choice([1,2,3,8,50,400,2000])); sc=10.0**rs.randint(int(sys.argv[2]),7)
        kind=rs.choice(["rand","prop","disjoint","single","sparse"])
        x=rs.rand(n)*sc*(rs.rand(n)<(0.2 if kind=="sparse" else 1.1)); 
        if x.sum()==0: x[rs.randint(n)]=sc
        if kind=="prop": y=x*10.0**rs.uniform(-3,3)
        elif kind=="disjoint" and n>1: y=np.where(x>0,0,rs.rand(n)*sc); 
        elif kind=="single": y=np.zeros(n); y[rs.randint(n)]=sc
        else: y=rs.rand(n)*sc*(rs.rand(n)<(0.2 if kind=="sparse" else 1.1))
        if y.sum()==0: y[rs.randint(n)]=sc
        z=rs.rand(n)*sc+1e-12*sc
        for name,fd,fs in pairs:
            a=fd(x.copy(),y.copy()); b=fd(y.copy(),x.copy())
            if not (np.isfinite(a) and a>=-1e-12): bad+=1; print("NONFINITE/NEG",name,kind,n,a); continue
            upd(name+" asym",abs(a-b))
            if kind=="prop": upd(name+" prop",a)
            ix=np.nonzero(x)[0].astype(np.int32); iy=np.nonzero(y)[0].astype(np.int32)
            s=fs(ix,x[ix].astype(np.float32),iy,y[iy].astype(np.float32))
            if name=="hellinger": upd("hellinger sparse-dense d^2",abs(s*s-a*a))
            else: upd(name+" sparse-dense rel",abs(s-a)/max(abs(a),1e-3))
        k=D.kantorovich1d(x.copy(),y.copy()); upd("kant asym",abs(k-D.kantorovich1d(y.copy(),x.copy())));
        if kind=="prop": upd("kant prop",k)
        for name,f in (("hellinger",D.hellinger),("tv",D.total_variation),("kant",D.kantorovich1d)):
            upd(name+" triangle excess", f(x.copy(),y.copy())-f(x.copy(),z.copy())-f(z.copy(),y.copy()))
        upd("hellinger max",D.hellinger(x,y)-1); upd("tv max",D.total_variation(x,y)-1)
    print("bad",bad); print(json.dumps({k:float("%.3g"%v) for k,v in sorted(worst.items())},indent=0))
if which=="grid":
    rs=np.random.RandomState(0)
    docs=[[str(rs.randint(15)) for _ in range(rs.randint(0,60))] for _ in range(40)]
    ref=V.TokenCooccurrenceVectorizer(window_radii=4, normalize_windows=False).fit_transform(docs).toarray()
    for cls,conv in ((V.TokenCooccurrenceVectorizer,lambda d:d),(V.NgramCooccurrenceVectorizer,lambda d:d),(V.TimedTokenCooccurrenceVectorizer,lambda d:[[(t,float(i)) for i,t in enumerate(x)] for x in d]),(V.MultiSetCooccurrenceVectorizer,lambda d:[[x[i:i+2] for i in range(0,len(x),2)] for x in d if x])):
        base=None
        for nt in (1,2,3,5,16):
            for mem in ("1k","16k","0.5 GiB"):
                try:
                    m=cls(window_radii=4, normalize_windows=False, n_threads=nt, coo_initial_memory=mem).fit_transform(conv(docs)).toarray()
                    if base is None: base=m
                    print(cls.__name__[:10], nt, mem, "maxdiff vs first", float(np.abs(m-base).max()), flush=True)
                except Exception as e: print(cls.__name__[:10], nt, mem, "EXC", type(e).__name__, str(e)[:80], flush=True)
